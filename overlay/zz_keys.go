package frugal

// Added to the scratch copy of lib/go by /verif before instrumentation (never to /repo).

import (
	"fmt"
	"hash/fnv"
	"sort"
	"sync/atomic"
)

// mapOrder is the run's policy for `range` over a map in the instrumented copy
// (simgen -mode maporder rewrites every such loop to range over simKeys(m)): 0 sorted,
// 1 reverse sorted, anything else a permutation derived from that number. Set once
// per run from the tape, so that the iteration order is part of the replayable run
// instead of the Go runtime's per-loop random choice.
var mapOrder atomic.Uint64

// SimSetMapOrder selects the map iteration policy of the run.
func SimSetMapOrder(v uint64) { mapOrder.Store(v) }

// simKeys returns the keys of m in the order the run's policy dictates. It is a pure
// function of the policy and the key set (no tape access: it may be called from
// any goroutine).
func simKeys[K comparable, V any](m map[K]V) []K {
	type kv struct {
		k K
		s string
		h uint64
	}
	mode := mapOrder.Load()
	items := make([]kv, 0, len(m))
	for k := range m {
		it := kv{k: k, s: fmt.Sprint(k)}
		if mode > 1 {
			h := fnv.New64a()
			var salt [8]byte
			for i := range salt {
				salt[i] = byte(mode >> (8 * i))
			}
			h.Write(salt[:])
			h.Write([]byte(it.s))
			it.h = h.Sum64()
		}
		items = append(items, it)
	}
	sort.Slice(items, func(i, j int) bool {
		a, b := items[i], items[j]
		switch {
		case mode == 1:
			return a.s > b.s
		case mode > 1 && a.h != b.h:
			return a.h < b.h
		}
		return a.s < b.s
	})
	keys := make([]K, len(items))
	for i, it := range items {
		keys[i] = it.k
	}
	return keys
}

// Keys is simKeys for the generated code the harness links against (rewritten by simgen -mode maporder-gen).
func Keys[K comparable, V any](m map[K]V) []K { return simKeys(m) }
