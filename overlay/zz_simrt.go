package frugal

// Added to the scratch copy of lib/go by /verif (never to /repo): the few
// observations oracles need that the public API does not offer.

import (
	"sync/atomic"
)

// SimRegistryLen returns the number of registrations a client transport still
// holds, or -1 if it cannot be observed right now.
func SimRegistryLen(t FTransport) int {
	var r fRegistry
	switch x := t.(type) {
	case *fAdapterTransport:
		r = x.registry
	case *fNatsTransport:
		r = x.registry
	case *fHTTPTransport:
		r = x.registry
	default:
		return -1
	}
	impl, ok := r.(*fRegistryImpl)
	if !ok {
		return -1
	}
	if !impl.mu.TryRLock() {
		return -1
	}
	defer impl.mu.RUnlock()
	return len(impl.channels)
}

// SimResetOpIDs makes op ids start from 1 again so that runs are repeatable
// within one process.
func SimResetOpIDs() { atomic.StoreUint64(&nextOpID, 0) }

// SimSetCorrelationID replaces the (random) correlation id generator.
func SimSetCorrelationID(f func() string) { generateCorrelationID = f }
