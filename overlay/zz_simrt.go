package frugal

// Added to the scratch copy of lib/go by /verif (never to /repo): the few
// observations oracles need that the public API does not offer.

// SimRegistryLen returns the number of registrations a client transport still
// holds, or -1 if it cannot be observed right now.
func SimRegistryLen(t FTransport) int {
	var r fRegistry
	switch x := t.(type) {
	case *fAdapterTransport:
		r = x.registry
	case *fNatsTransport:
		r = x.registry
	case *fHTTPTransport:
		r = x.registry
	default:
		return -1
	}
	impl, ok := r.(*fRegistryImpl)
	if !ok {
		return -1
	}
	if !impl.mu.TryRLock() {
		return -1
	}
	defer impl.mu.RUnlock()
	return len(impl.channels)
}

// SimResetOpIDs makes op ids start from 1 again so that runs are repeatable
// within one process.
func SimResetOpIDs() { simSetCounter(&nextOpID, 0) }

// SimSetOpIDBase moves the op id counter (between runs or before any task
// exists: no concurrent access), so that a run can start just below a width
// boundary a long-running process would reach.
func SimSetOpIDBase(v uint64) { simSetCounter(&nextOpID, v) }

func simSetCounter[T ~uint32 | ~uint64 | ~int32 | ~int64 | ~uint | ~int](p *T, v uint64) { *p = T(v) }

// SimSetCorrelationID replaces the (random) correlation id generator.
func SimSetCorrelationID(f func() string) { generateCorrelationID = f }

// SimCompletedCall does to a context what a finished call on a registry-backed
// client transport (adapter, NATS) does to it: the call is registered under the
// context's op id and unregistered when it is over.
func SimCompletedCall(ctx FContext) {
	r := newFRegistry()
	r.Register(ctx, make(chan []byte, 1))
	r.Unregister(ctx)
}
