package simrt

import (
	"hash/fnv"
	"math/rand/v2"
)

// Tape is the single source of every decision in a simulated run. It is split
// into named streams (config, schedule, peer behaviour, chunking ...) so that a
// shrinker can simplify the schedule without shifting the workload. In search
// mode each stream is a PCG generator seeded from (seed, stream name) and every
// decision is recorded; in replay mode the recorded integers are played back
// (reduced modulo the number of alternatives; 0 past the end).
type Tape struct {
	Seed   uint64
	replay map[string][]int
	Rec    map[string][]int
	pos    map[string]int
	rngs   map[string]*rand.Rand
}

// NewTape returns a search-mode tape.
func NewTape(seed uint64) *Tape {
	return &Tape{Seed: seed, Rec: map[string][]int{}, pos: map[string]int{}, rngs: map[string]*rand.Rand{}}
}

// NewReplayTape returns a tape that plays back the given streams.
func NewReplayTape(seed uint64, streams map[string][]int) *Tape {
	t := NewTape(seed)
	t.replay = map[string][]int{}
	for k, v := range streams {
		t.replay[k] = append([]int(nil), v...)
	}
	return t
}

func (t *Tape) rng(stream string) *rand.Rand {
	r := t.rngs[stream]
	if r == nil {
		h := fnv.New64a()
		h.Write([]byte(stream))
		r = rand.New(rand.NewPCG(t.Seed, h.Sum64()))
		t.rngs[stream] = r
	}
	return r
}

// Pick returns a decision in [0,n). In search mode gen draws it (gen may be nil
// for a uniform draw); in replay mode it comes from the recorded stream.
func (t *Tape) Pick(stream string, n int, gen func(r *rand.Rand) int) int {
	if n <= 0 {
		return 0
	}
	var v int
	if t.replay != nil {
		s := t.replay[stream]
		p := t.pos[stream]
		if p < len(s) {
			v = s[p]
		}
		t.pos[stream] = p + 1
		if v < 0 {
			v = -v
		}
		v %= n
	} else {
		if gen != nil {
			v = gen(t.rng(stream))
			if v < 0 || v >= n {
				v = ((v % n) + n) % n
			}
		} else if n > 1 {
			v = t.rng(stream).IntN(n)
		}
	}
	t.Rec[stream] = append(t.Rec[stream], v)
	return v
}

// Intn is a uniform decision in [0,n).
func (t *Tape) Intn(stream string, n int) int { return t.Pick(stream, n, nil) }

// Bool is true with probability num/den in search mode.
func (t *Tape) Bool(stream string, num, den int) bool {
	return t.Pick(stream, 2, func(r *rand.Rand) int {
		if r.IntN(den) < num {
			return 1
		}
		return 0
	}) == 1
}

// Range is a uniform decision in [lo,hi].
func (t *Tape) Range(stream string, lo, hi int) int {
	if hi <= lo {
		return lo
	}
	return lo + t.Intn(stream, hi-lo+1)
}

// Biased picks in [0,n) favouring small values (geometric-ish); zero is the
// "simplest" alternative everywhere, which is what shrinking converges to.
func (t *Tape) Biased(stream string, n int) int {
	return t.Pick(stream, n, func(r *rand.Rand) int {
		v := 0
		for v < n-1 && r.IntN(2) == 0 {
			v++
		}
		return v
	})
}

// Streams returns a copy of everything recorded so far.
func (t *Tape) Streams() map[string][]int {
	out := map[string][]int{}
	for k, v := range t.Rec {
		out[k] = append([]int(nil), v...)
	}
	return out
}
