package simrt

import (
	"strings"
	"sync"
)

// panicKey extracts a stable witness key from a panic stack: the first
// function of the code under test (package frugal or generated code) on it.
func panicKey(stack []byte) string {
	lines := strings.Split(string(stack), "\n")
	for _, l := range lines {
		if strings.HasPrefix(l, "\t") || strings.HasPrefix(l, "goroutine ") {
			continue
		}
		if strings.Contains(l, "simrt.") || strings.HasPrefix(l, "runtime.") || strings.HasPrefix(l, "panic(") {
			continue
		}
		if i := strings.LastIndex(l, "("); i > 0 {
			l = l[:i]
		}
		if l != "" {
			return l
		}
	}
	return "unknown"
}

// Pool stands in for sync.Pool in the instrumented copy: same API, but what
// Get returns is a function of the run (last in, first out) instead of the
// thread that asks, and every pool is emptied when a new run starts, so a run
// is a fresh process as far as pooled objects go.
type Pool struct {
	New   func() any
	mu    sync.Mutex
	items []any
	known bool
}

var (
	poolsMu sync.Mutex
	pools   []*Pool
)

func (p *Pool) register() {
	if !p.known {
		p.known = true
		poolsMu.Lock()
		pools = append(pools, p)
		poolsMu.Unlock()
	}
}

// Get returns the most recently Put item, or New().
func (p *Pool) Get() any {
	p.mu.Lock()
	p.register()
	if n := len(p.items); n > 0 {
		x := p.items[n-1]
		p.items = p.items[:n-1]
		p.mu.Unlock()
		return x
	}
	p.mu.Unlock()
	if p.New != nil {
		return p.New()
	}
	return nil
}

// Put adds an item.
func (p *Pool) Put(x any) {
	p.mu.Lock()
	p.register()
	p.items = append(p.items, x)
	p.mu.Unlock()
}

// ResetPools empties every pool (between runs).
func ResetPools() {
	poolsMu.Lock()
	defer poolsMu.Unlock()
	for _, p := range pools {
		p.mu.Lock()
		p.items = nil
		p.mu.Unlock()
	}
}
