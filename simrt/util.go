package simrt

import (
	"strings"
)

// panicKey extracts a stable witness key from a panic stack: the first
// function of the code under test (package frugal or generated code) on it.
func panicKey(stack []byte) string {
	lines := strings.Split(string(stack), "\n")
	for _, l := range lines {
		if strings.HasPrefix(l, "\t") || strings.HasPrefix(l, "goroutine ") {
			continue
		}
		if strings.Contains(l, "simrt.") || strings.HasPrefix(l, "runtime.") || strings.HasPrefix(l, "panic(") {
			continue
		}
		if i := strings.LastIndex(l, "("); i > 0 {
			l = l[:i]
		}
		if l != "" {
			return l
		}
	}
	return "unknown"
}
