module verif/simrt

go 1.25
