// Package simrt is the deterministic scheduler that instrumented code (rewritten
// by /verif/simgen) and the harnesses run under. One Sim is one simulated run
// inside one testing/synctest bubble: the bubble supplies the fake clock and
// quiescence detection, this package decides which parked task runs next, from
// the run's Tape. With no Sim installed every entry point falls through to the
// native operation.
package simrt

import (
	"fmt"
	"hash/fnv"
	"math/rand/v2"
	"runtime"
	"sort"
	"strings"
	"sync"
	"sync/atomic"
	"testing/synctest"
	"time"
)

type taskState int

const (
	stRunning  taskState = iota // released by the scheduler (or free-running until its next mandatory yield)
	stParked                    // waiting for the scheduler to release it
	stLockWait                  // TryLock failed; waiting for an Unlock of that lock
	stNative                    // blocked (or about to block) in a native channel/select/library operation
	stDead
	stStalled // held back by an injected stall fault until a simulated instant
)

func (s taskState) String() string {
	return [...]string{"running", "parked", "lockwait", "native", "dead", "stalled"}[s]
}

const (
	cmdRun = 1
	cmdDie = 2
)

// Task is one goroutine known to the scheduler.
type Task struct {
	ID        string
	Class     string // optional label given by the harness (caller, reader, ...)
	goid      int64
	resume    chan int
	state     taskState
	site      int // where it is parked / blocked
	waitLock  any
	children  int
	prio      int
	held      []heldLock
	Steps     int
	spawnStep int
}

type heldLock struct {
	m     any
	write bool
}

// TaskInfo is a snapshot of a task for oracles.
type TaskInfo struct {
	ID, Class, State string
	Site             int
	SiteName         string
	SiteKey          string
}

// Event is an environment action (message delivery, peer behaviour, fault)
// that the scheduler interleaves with task steps. Fire runs on the scheduler
// goroutine and must not block.
type Event struct {
	ID   string
	At   time.Time // zero: enabled immediately
	Fire func()
	prio int
	seq  int
}

// TraceEntry is one scheduler decision.
type TraceEntry struct {
	Step int
	Kind byte // 'T' task released, 'E' environment event fired
	ID   string
	Site int
	Now  int64 // simulated ns since start
}

// Violation is recorded by oracles or by the runtime (panics).
type Violation struct {
	Class  string // e.g. "panic", "wedged-reader"
	Key    string // witness key: stable across seeds for the same defect
	Detail string
	Step   int
}

// Config holds per-run knobs; all are decided by the harness from the tape.
type Config struct {
	MaxSteps int
	Horizon  time.Duration
	Policy   int // 0 uniform, 1 sticky, 2 pct
	StickyP  int // percent
	PCTDepth int
	SitePct  int // percent of instrumented pre-yield sites that are scheduling points
	SiteSeed uint64
	// StallPerMille > 0 enables the "stalled task" fault: each time a task is
	// about to be released it is instead held back, with this probability, for
	// a tape-chosen simulated duration (a slow or descheduled node).
	StallPerMille int
}

// Stall is one injected stall: task ID held back during [From, To).
type Stall struct {
	Task     string
	From, To time.Duration
}

// AnyStall reports whether some task was held back by a stall fault during
// [from, to] - timing oracles skip operations that overlap one.
func (s *Sim) AnyStall(from, to time.Duration) bool {
	s.mu.Lock()
	defer s.mu.Unlock()
	for _, st := range s.Stalls {
		if st.From <= to && st.To >= from {
			return true
		}
	}
	return false
}

var stallDurations = []time.Duration{time.Millisecond, 20 * time.Millisecond, 300 * time.Millisecond, 3 * time.Second}

// Sim is one simulated run.
type Sim struct {
	mu             sync.Mutex
	Tape           *Tape
	Cfg            Config
	Start          time.Time
	tasks          map[int64]*Task
	all            []*Task
	byID           map[string]*Task
	current        *Task
	last           *Task
	wake           chan struct{}
	rootG          int64 // the scheduler goroutine: never parks, runs instrumented code natively
	waiters        map[any][]*Task
	pendingWriters map[any]int
	libLocks       map[uintptr]*sync.Mutex
	events         []*Event
	evSeq          int
	libSeq         map[int]int
	dying          bool

	Step       int
	Trace      []TraceEntry
	fp         uint64
	Violations []Violation
	TimedOut   bool
	StepLimit  bool
	OnStep     func() // invariant hook, runs at quiescence on the scheduler goroutine
	Counters   map[string]int
	End        time.Duration // simulated time at the end of Run
	pctChange  map[int]bool
	SitesHit   map[int]int
	// context-switch pair coverage: (site of task A) -> (site of next task B != A)
	Switches map[[2]int]int
	memState map[uintptr]*memLoc
	MemOn    bool
	Stalls   []Stall
}

var curSim atomic.Pointer[Sim]

func cur() *Sim { return curSim.Load() }

// Active reports whether a simulation is installed.
func Active() bool { return cur() != nil }

// Current returns the installed Sim or nil.
func Current() *Sim { return cur() }

// SiteNames is filled by the instrumented package's generated init (site id ->
// "file:line kind"). Harness-owned sites use negative ids (HarnessSite).
var SiteNames = map[int]string{}
var siteMu sync.Mutex
var harnessSites = map[string]int{}

// RegisterSites is called from generated code.
func RegisterSites(names []string) {
	siteMu.Lock()
	defer siteMu.Unlock()
	for i, n := range names {
		SiteNames[i+1] = n
	}
}

// HarnessSite returns a stable negative site id for a harness-owned
// scheduling point (a hash of the name, so that it does not depend on which
// run of a process used it first).
func HarnessSite(name string) int {
	siteMu.Lock()
	defer siteMu.Unlock()
	if id, ok := harnessSites[name]; ok {
		return id
	}
	h := fnv.New32a()
	h.Write([]byte(name))
	id := -int(h.Sum32()&0x3fffffff) - 1
	for {
		if _, taken := SiteNames[id]; !taken {
			break
		}
		id--
	}
	harnessSites[name] = id
	SiteNames[id] = name
	return id
}

// SiteKey renders a site id without its line number ("file.go func/kind#n"),
// stable under unrelated edits; used in witness keys.
func SiteKey(site int) string {
	n := SiteName(site)
	i := strings.Index(n, ":")
	j := strings.Index(n, " ")
	if i > 0 && j > i {
		return n[:i] + n[j:]
	}
	return n
}

// SiteName renders a site id.
func SiteName(site int) string {
	siteMu.Lock()
	defer siteMu.Unlock()
	if n, ok := SiteNames[site]; ok {
		return n
	}
	return fmt.Sprintf("site%d", site)
}

func goid() int64 {
	var buf [48]byte
	n := runtime.Stack(buf[:], false)
	var id int64
	for _, c := range buf[10:n] {
		if c < '0' || c > '9' {
			break
		}
		id = id*10 + int64(c-'0')
	}
	return id
}

// New creates a Sim; it must be called (and Run) inside a synctest bubble.
func New(tape *Tape, cfg Config) *Sim {
	if cfg.MaxSteps == 0 {
		cfg.MaxSteps = 20000
	}
	if cfg.Horizon == 0 {
		cfg.Horizon = 10 * time.Minute
	}
	if cfg.SitePct == 0 {
		cfg.SitePct = 100
	}
	s := &Sim{
		Tape: tape, Cfg: cfg, Start: time.Now(),
		tasks: map[int64]*Task{}, byID: map[string]*Task{},
		wake: make(chan struct{}, 1), waiters: map[any][]*Task{}, pendingWriters: map[any]int{}, libLocks: map[uintptr]*sync.Mutex{},
		libSeq: map[int]int{}, Counters: map[string]int{},
		SitesHit: map[int]int{}, Switches: map[[2]int]int{},
		memState: map[uintptr]*memLoc{},
	}
	s.rootG = goid()
	h := fnv.New64a()
	s.fp = h.Sum64()
	if cfg.Policy == 2 {
		s.pctChange = map[int]bool{}
	}
	return s
}

// Install makes s the process-wide simulation. Uninstall with Uninstall.
func (s *Sim) Install()   { curSim.Store(s) }
func (s *Sim) Uninstall() { curSim.CompareAndSwap(s, nil) }

// Now is simulated time since the start of the run.
func (s *Sim) Now() time.Duration { return time.Since(s.Start) }

// Count bumps a named probe counter.
func (s *Sim) Count(name string) {
	s.mu.Lock()
	s.Counters[name]++
	s.mu.Unlock()
}

// Violate records a violation.
func (s *Sim) Violate(class, key, detail string) {
	s.mu.Lock()
	s.Violations = append(s.Violations, Violation{Class: class, Key: key, Detail: detail, Step: s.Step})
	s.mu.Unlock()
}

func (s *Sim) signal() {
	select {
	case s.wake <- struct{}{}:
	default:
	}
}

// me returns the calling goroutine's task, registering library goroutines on
// first sight (id from the site they first reach).
func (s *Sim) me(site int) *Task {
	g := goid()
	s.mu.Lock()
	t := s.tasks[g]
	if t == nil {
		n := s.libSeq[site]
		s.libSeq[site] = n + 1
		t = &Task{ID: fmt.Sprintf("L%d#%d", site, n), Class: "lib", goid: g, resume: make(chan int, 1), state: stRunning}
		s.tasks[g] = t
		s.all = append(s.all, t)
		s.byID[t.ID] = t
	}
	s.mu.Unlock()
	return t
}

func (s *Sim) siteOn(site int) bool {
	if site <= 0 || s.Cfg.SitePct >= 100 {
		return true
	}
	x := uint64(site)*0x9E3779B97F4A7C15 ^ s.Cfg.SiteSeed
	x ^= x >> 29
	x *= 0xBF58476D1CE4E5B9
	x ^= x >> 32
	return int(x%100) < s.Cfg.SitePct
}

// park blocks the caller until the scheduler releases it.
func (s *Sim) park(t *Task, site int) {
	if t.goid == s.rootG {
		return // set-up code run on the scheduler goroutine itself
	}
	s.mu.Lock()
	if s.dying {
		s.mu.Unlock()
		runtime.Goexit()
	}
	t.site = site
	t.state = stParked
	if s.current == t {
		s.current = nil
	}
	s.mu.Unlock()
	s.signal()
	if c := <-t.resume; c == cmdDie {
		runtime.Goexit()
	}
}

// pre is an optional scheduling point before a synchronisation operation: the
// task released by the scheduler passes straight through disabled sites; any
// other goroutine (woken natively, library callback) always parks.
func (s *Sim) pre(t *Task, site int) {
	if t.goid == s.rootG {
		return
	}
	s.mu.Lock()
	pass := s.current == t && !s.siteOn(site) && !s.dying
	s.mu.Unlock()
	if pass {
		return
	}
	s.park(t, site)
}

func (s *Sim) enterNative(t *Task, site int) {
	s.mu.Lock()
	t.state = stNative
	t.site = site
	if s.current == t {
		s.current = nil
	}
	s.mu.Unlock()
}

// Yield is a mandatory scheduling point (used after anything that may have
// blocked natively and at goroutine birth).
func Yield(site int) {
	if s := cur(); s != nil {
		s.park(s.me(site), site)
	}
}

// Pre is an optional scheduling point (before atomics, harness operations).
func Pre(site int) {
	if s := cur(); s != nil {
		s.pre(s.me(site), site)
	}
}

// Block marks the calling task as entering a native blocking operation that
// the instrumenter does not model (library call); call Yield afterwards.
func Block(site int) {
	if s := cur(); s != nil {
		s.enterNative(s.me(site), site)
	}
}

// ---- tasks -----------------------------------------------------------------

// Spawned is the handle between Spawn (in the parent) and Born (in the child).
type Spawned struct {
	s    *Sim
	id   string
	site int
	cls  string
	step int
}

// Spawn is called by the parent immediately before a go statement.
func Spawn(site int) *Spawned {
	s := cur()
	if s == nil {
		return nil
	}
	t := s.me(site)
	s.mu.Lock()
	t.children++
	h := &Spawned{s: s, id: fmt.Sprintf("%s.%d", t.ID, t.children), site: site, step: s.Step}
	s.mu.Unlock()
	return h
}

// Born is the first thing the child goroutine does; it parks until scheduled.
func Born(h *Spawned) {
	if h == nil || cur() != h.s {
		return
	}
	s := h.s
	g := goid()
	t := &Task{ID: h.id, Class: h.cls, goid: g, resume: make(chan int, 1), state: stRunning, spawnStep: h.step}
	s.mu.Lock()
	s.tasks[g] = t
	s.all = append(s.all, t)
	s.byID[t.ID] = t
	s.mu.Unlock()
	s.park(t, h.site)
}

// Exit is deferred in every spawned task. A panic in the task is recorded as
// a violation witness instead of killing the process.
func Exit() {
	r := recover()
	s := cur()
	if s == nil {
		if r != nil {
			panic(r)
		}
		return
	}
	g := goid()
	s.mu.Lock()
	t := s.tasks[g]
	if t != nil {
		t.state = stDead
		delete(s.tasks, g)
		if s.current == t {
			s.current = nil
		}
	}
	s.mu.Unlock()
	if r != nil {
		s.recordPanic(r)
	}
	s.signal()
}

func (s *Sim) recordPanic(r any) {
	buf := make([]byte, 8192)
	buf = buf[:runtime.Stack(buf, false)]
	key := panicKey(buf)
	s.Violate("panic", key, fmt.Sprintf("%v\n%s", r, buf))
}

// Recover is deferred by callback guards on library goroutines.
func Recover() {
	if r := recover(); r != nil {
		if s := cur(); s != nil {
			s.recordPanic(r)
			return
		}
		panic(r)
	}
}

// Guard0/Guard1 wrap callbacks handed to libraries so that a panic raised on a
// library goroutine is recorded rather than fatal.
func Guard0(f func()) func() {
	return func() { defer Recover(); f() }
}
func Guard1[A any](f func(A)) func(A) {
	return func(a A) { defer Recover(); f(a) }
}

// Go starts a harness task.
func (s *Sim) Go(class string, f func()) {
	h := Spawn(HarnessSite("spawn:" + class))
	if h == nil {
		go f()
		return
	}
	h.cls = class
	go func() {
		Born(h)
		defer Exit()
		f()
	}()
}

// GoRoot starts a top-level harness task from the scheduler goroutine with an
// explicit stable id.
func (s *Sim) GoRoot(id, class string, f func()) {
	h := &Spawned{s: s, id: id, site: HarnessSite("spawn:" + class), cls: class}
	go func() {
		Born(h)
		defer Exit()
		f()
	}()
}

// ---- environment events ------------------------------------------------------

// AddEvent schedules an environment event; safe from any goroutine.
func (s *Sim) AddEvent(id string, delay time.Duration, fire func()) {
	e := &Event{ID: id, Fire: fire}
	if delay > 0 {
		e.At = time.Now().Add(delay)
	}
	s.mu.Lock()
	s.evSeq++
	e.seq = s.evSeq
	s.events = append(s.events, e)
	s.mu.Unlock()
	s.signal()
}

// PendingEvents reports how many environment events are queued.
func (s *Sim) PendingEvents() int {
	s.mu.Lock()
	defer s.mu.Unlock()
	return len(s.events)
}

// ---- the scheduler loop --------------------------------------------------------

type choice struct {
	t *Task
	e *Event
}

func (c choice) id() string {
	if c.t != nil {
		return c.t.ID
	}
	return c.e.ID
}

// Run drives the simulation until done() holds at a quiescent point with
// nothing enabled, the horizon passes or the step bound is hit.
func (s *Sim) Run(done func() bool) {
	defer func() { s.End = time.Since(s.Start) }()
	for {
		synctest.Wait()
		if s.OnStep != nil {
			s.OnStep()
		}
		now := time.Now()
		s.mu.Lock()
		var en []choice
		var nextAt time.Time
		var tasks []*Task
		for _, t := range s.all {
			if t.state == stParked {
				tasks = append(tasks, t)
			}
		}
		sort.Slice(tasks, func(i, j int) bool { return tasks[i].ID < tasks[j].ID })
		// the task that ran last comes first: choice 0 means "no context switch"
		for _, t := range tasks {
			if t == s.last {
				en = append(en, choice{t: t})
			}
		}
		for _, t := range tasks {
			if t != s.last {
				en = append(en, choice{t: t})
			}
		}
		var evs []*Event
		for _, e := range s.events {
			if e.At.IsZero() || !e.At.After(now) {
				evs = append(evs, e)
			} else if nextAt.IsZero() || e.At.Before(nextAt) {
				nextAt = e.At
			}
		}
		sort.Slice(evs, func(i, j int) bool {
			if evs[i].ID != evs[j].ID {
				return evs[i].ID < evs[j].ID
			}
			return evs[i].seq < evs[j].seq
		})
		for _, e := range evs {
			en = append(en, choice{e: e})
		}
		s.mu.Unlock()

		if len(en) == 0 {
			if done() {
				return
			}
			if now.Sub(s.Start) >= s.Cfg.Horizon {
				s.TimedOut = true
				return
			}
			d := s.Cfg.Horizon - now.Sub(s.Start)
			if !nextAt.IsZero() && nextAt.Sub(now) < d {
				d = nextAt.Sub(now)
			}
			select {
			case <-s.wake:
			default:
			}
			tm := time.NewTimer(d)
			select {
			case <-s.wake:
			case <-tm.C:
			}
			tm.Stop()
			continue
		}
		if s.Step >= s.Cfg.MaxSteps {
			s.StepLimit = true
			return
		}
		k := s.choose(en)
		c := en[k]
		s.Step++
		te := TraceEntry{Step: s.Step, ID: c.id(), Now: int64(now.Sub(s.Start))}
		if c.t != nil && s.Cfg.StallPerMille > 0 && len(s.Stalls) < 8 &&
			s.Tape.Pick("stall", 1000, func(r *rand.Rand) int {
				if r.IntN(1000) < s.Cfg.StallPerMille {
					return 0
				}
				return 1 + r.IntN(999)
			}) == 0 {
			// stall fault: hold this task back instead of releasing it
			d := stallDurations[s.Tape.Intn("stall", len(stallDurations))]
			t := c.t
			s.mu.Lock()
			t.state = stStalled
			s.Stalls = append(s.Stalls, Stall{Task: t.ID, From: now.Sub(s.Start), To: now.Sub(s.Start) + d})
			s.Counters["fault:task-stalled"]++
			s.mu.Unlock()
			s.Step++
			s.note(TraceEntry{Step: s.Step, Kind: 'S', ID: t.ID, Site: t.site, Now: int64(now.Sub(s.Start))})
			s.AddEvent("stall-end:"+t.ID, d, func() {
				s.mu.Lock()
				if t.state == stStalled {
					t.state = stParked
				}
				s.mu.Unlock()
			})
			continue
		}
		if c.t != nil {
			te.Kind, te.Site = 'T', c.t.site
			s.mu.Lock()
			if s.last != nil && s.last != c.t {
				s.Switches[[2]int{s.last.site, c.t.site}]++
			}
			s.SitesHit[c.t.site]++
			c.t.state = stRunning
			c.t.Steps++
			s.current = c.t
			s.last = c.t
			s.mu.Unlock()
			s.note(te)
			c.t.resume <- cmdRun
		} else {
			te.Kind = 'E'
			s.mu.Lock()
			for i, e := range s.events {
				if e == c.e {
					s.events = append(s.events[:i], s.events[i+1:]...)
					break
				}
			}
			s.mu.Unlock()
			s.note(te)
			c.e.Fire()
		}
	}
}

func (s *Sim) note(te TraceEntry) {
	s.Trace = append(s.Trace, te)
	h := fnv.New64a()
	var b [8]byte
	for i := 0; i < 8; i++ {
		b[i] = byte(s.fp >> (8 * i))
	}
	h.Write(b[:])
	h.Write([]byte{te.Kind})
	h.Write([]byte(te.ID))
	b[0], b[1], b[2], b[3] = byte(te.Site), byte(te.Site>>8), byte(te.Site>>16), byte(te.Site>>24)
	h.Write(b[:4])
	s.fp = h.Sum64()
}

// Fingerprint identifies the schedule (sequence of released tasks with sites
// and fired events).
func (s *Sim) Fingerprint() uint64 { return s.fp }

func (s *Sim) prioOf(c choice, r *rand.Rand) int {
	if c.t != nil {
		if c.t.prio == 0 {
			c.t.prio = 1000 + r.IntN(1000000)
		}
		return c.t.prio
	}
	if c.e.prio == 0 {
		c.e.prio = 1000 + r.IntN(1000000)
	}
	return c.e.prio
}

func (s *Sim) choose(en []choice) int {
	n := len(en)
	if n == 1 {
		// still consume a tape entry so that enabling more tasks by a code
		// change does not shift the stream silently? No: keep tapes short.
		return 0
	}
	return s.Tape.Pick("sched", n, func(r *rand.Rand) int {
		switch s.Cfg.Policy {
		case 1: // sticky
			if en[0].t != nil && en[0].t == s.last && r.IntN(100) < s.Cfg.StickyP {
				return 0
			}
			return r.IntN(n)
		case 2: // PCT-style priorities with a few change points
			if len(s.pctChange) == 0 {
				for i := 0; i < s.Cfg.PCTDepth; i++ {
					s.pctChange[1+r.IntN(400)] = true
				}
				s.pctChange[-1] = true
			}
			best, bp := 0, -1
			for i, c := range en {
				if p := s.prioOf(c, r); p > bp {
					best, bp = i, p
				}
			}
			if s.pctChange[s.Step] {
				// demote the current top runner below everything else
				if en[best].t != nil {
					en[best].t.prio = 1 + r.IntN(900)
				} else {
					en[best].e.prio = 1 + r.IntN(900)
				}
				best, bp = 0, -1
				for i, c := range en {
					if p := s.prioOf(c, r); p > bp {
						best, bp = i, p
					}
				}
			}
			return best
		default:
			return r.IntN(n)
		}
	})
}

// Tasks returns a snapshot of all tasks ever seen (sorted by id).
func (s *Sim) Tasks() []TaskInfo {
	s.mu.Lock()
	defer s.mu.Unlock()
	out := make([]TaskInfo, 0, len(s.all))
	for _, t := range s.all {
		out = append(out, TaskInfo{ID: t.ID, Class: t.Class, State: t.state.String(), Site: t.site, SiteKey: ""})
	}
	sort.Slice(out, func(i, j int) bool { return out[i].ID < out[j].ID })
	for i := range out {
		out[i].SiteName = SiteName(out[i].Site)
		out[i].SiteKey = SiteKey(out[i].Site)
	}
	return out
}

// Shutdown ends the run: parked and lock-waiting tasks exit (runtime.Goexit),
// tasks that later reach any scheduling point exit too. Natively blocked tasks
// that nothing wakes are leaked with the bubble.
func (s *Sim) Shutdown() {
	s.mu.Lock()
	s.dying = true
	var kill []*Task
	for _, t := range s.all {
		if t.state == stParked || t.state == stLockWait || t.state == stStalled {
			kill = append(kill, t)
		}
	}
	s.mu.Unlock()
	for _, t := range kill {
		select {
		case t.resume <- cmdDie:
		default:
		}
	}
}

// TaskID returns the scheduler id of the calling goroutine ("" if unknown).
func TaskID() string {
	s := cur()
	if s == nil {
		return ""
	}
	g := goid()
	s.mu.Lock()
	defer s.mu.Unlock()
	if t := s.tasks[g]; t != nil {
		return t.ID
	}
	return ""
}

// SetClass labels the calling task.
func SetClass(class string) {
	s := cur()
	if s == nil {
		return
	}
	g := goid()
	s.mu.Lock()
	if t := s.tasks[g]; t != nil {
		t.Class = class
	}
	s.mu.Unlock()
}

// SpawnStep returns the scheduler step at which the calling task's go
// statement ran (-1 if unknown).
func SpawnStep() int {
	s := cur()
	if s == nil {
		return -1
	}
	g := goid()
	s.mu.Lock()
	defer s.mu.Unlock()
	if t := s.tasks[g]; t != nil {
		return t.spawnStep
	}
	return -1
}
