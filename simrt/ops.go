package simrt

import (
	"math/rand/v2"
	"reflect"
	"runtime"
	"sync"
)

// Locker is satisfied by *sync.Mutex and *sync.RWMutex.
type Locker interface {
	Lock()
	TryLock() bool
	Unlock()
}

// RLocker is satisfied by *sync.RWMutex.
type RLocker interface {
	RLock()
	TryRLock() bool
	RUnlock()
}

func (s *Sim) lockLoop(t *Task, site int, m any, try func() bool, write bool) {
	s.pre(t, site)
	pending := false
	for {
		if try() {
			s.mu.Lock()
			t.held = append(t.held, heldLock{m, write})
			if pending {
				s.pendingWriters[m]--
			}
			s.mu.Unlock()
			return
		}
		if write && !pending {
			// a writer that found the lock taken is, from now on, "blocked in
			// Lock()": like the real sync.RWMutex, new readers must wait behind it
			pending = true
			s.mu.Lock()
			s.pendingWriters[m]++
			s.mu.Unlock()
		}
		if t.goid == s.rootG {
			panic("simrt: the scheduler goroutine would block on a lock held by a parked task")
		}
		s.mu.Lock()
		if s.dying {
			s.mu.Unlock()
			runtime.Goexit()
		}
		t.state = stLockWait
		t.site = site
		t.waitLock = m
		s.waiters[m] = append(s.waiters[m], t)
		if s.current == t {
			s.current = nil
		}
		s.mu.Unlock()
		s.signal()
		if c := <-t.resume; c == cmdDie {
			runtime.Goexit()
		}
	}
}

func (s *Sim) released(t *Task, m any) {
	s.mu.Lock()
	for i := len(t.held) - 1; i >= 0; i-- {
		if t.held[i].m == m {
			t.held = append(t.held[:i], t.held[i+1:]...)
			break
		}
	}
	ws := s.waiters[m]
	delete(s.waiters, m)
	for _, w := range ws {
		if w.state == stLockWait {
			w.state = stParked
		}
	}
	s.mu.Unlock()
}

// Lock replaces m.Lock(): a scheduling point followed by a TryLock loop, so
// that a task never blocks on a sync.Mutex (not durably blocking under
// synctest) and acquisition order is the scheduler's decision.
func Lock(site int, m Locker) {
	s := cur()
	if s == nil {
		m.Lock()
		return
	}
	s.lockLoop(s.me(site), site, m, m.TryLock, true)
}

// Unlock replaces m.Unlock().
func Unlock(site int, m Locker) {
	m.Unlock()
	if s := cur(); s != nil {
		s.released(s.me(site), m)
	}
}

// RLock replaces m.RLock().
func RLock(site int, m RLocker) {
	s := cur()
	if s == nil {
		m.RLock()
		return
	}
	s.lockLoop(s.me(site), site, m, func() bool {
		s.mu.Lock()
		w := s.pendingWriters[m] > 0
		s.mu.Unlock()
		if w {
			return false // writer preference: a pending Lock() blocks new RLock() calls, re-entrant ones included
		}
		return m.TryRLock()
	}, false)
}

// RUnlock replaces m.RUnlock().
func RUnlock(site int, m RLocker) {
	m.RUnlock()
	if s := cur(); s != nil {
		s.released(s.me(site), m)
	}
}

// Send replaces `ch <- v`.
// SendTo returns the send operation on ch as a function of the value, so that generated code can pass any value
// assignable to the element type.
func SendTo[T any](site int, ch chan<- T) func(T) {
	return func(v T) { Send(site, ch, v) }
}

func Send[T any](site int, ch chan<- T, v T) {
	s := cur()
	if s == nil {
		ch <- v
		return
	}
	t := s.me(site)
	s.pre(t, site)
	select {
	case ch <- v:
		return
	default:
	}
	s.enterNative(t, site)
	ch <- v
	s.park(t, site)
}

// Recv replaces `<-ch`.
func Recv[T any](site int, ch <-chan T) T {
	v, _ := Recv2(site, ch)
	return v
}

// Recv2 replaces `v, ok := <-ch`.
func Recv2[T any](site int, ch <-chan T) (T, bool) {
	s := cur()
	if s == nil {
		v, ok := <-ch
		return v, ok
	}
	t := s.me(site)
	s.pre(t, site)
	select {
	case v, ok := <-ch:
		return v, ok
	default:
	}
	s.enterNative(t, site)
	v, ok := <-ch
	s.park(t, site)
	return v, ok
}

// Close replaces close(ch): closing wakes every waiter, so it is a scheduling
// point like a send.
func Close[T any](site int, ch chan<- T) {
	s := cur()
	if s == nil {
		close(ch)
		return
	}
	t := s.me(site)
	s.pre(t, site)
	close(ch)
}

// Case is one communication clause of a rewritten select.
type Case struct {
	Dir  reflect.SelectDir
	Chan reflect.Value
	Send reflect.Value
}

// RecvCase builds a receive clause.
func RecvCase(ch any) Case {
	return Case{Dir: reflect.SelectRecv, Chan: reflect.ValueOf(ch)}
}

// SendCase builds a send clause.
func SendCase(ch any, v any) Case {
	c := Case{Dir: reflect.SelectSend, Chan: reflect.ValueOf(ch)}
	rv := reflect.ValueOf(v)
	if !rv.IsValid() {
		rv = reflect.Zero(c.Chan.Type().Elem())
	} else if rv.Type() != c.Chan.Type().Elem() {
		nv := reflect.New(c.Chan.Type().Elem()).Elem()
		nv.Set(rv)
		rv = nv
	}
	c.Send = rv
	return c
}

// CastFrom converts the value received by Select back to the channel's
// element type (nil-safe for interface element types).
func CastFrom[T any](ch <-chan T, rv reflect.Value) T {
	var z T
	if !rv.IsValid() {
		return z
	}
	reflect.ValueOf(&z).Elem().Set(rv)
	return z
}

var perms = map[int][][]int{
	1: {{0}},
	2: {{0, 1}, {1, 0}},
	3: {{0, 1, 2}, {0, 2, 1}, {1, 0, 2}, {1, 2, 0}, {2, 0, 1}, {2, 1, 0}},
}

func nativeSelect(hasDefault bool, cases []Case) (int, reflect.Value, bool) {
	rc := make([]reflect.SelectCase, 0, len(cases)+1)
	for _, c := range cases {
		rc = append(rc, reflect.SelectCase{Dir: c.Dir, Chan: c.Chan, Send: c.Send})
	}
	if hasDefault {
		rc = append(rc, reflect.SelectCase{Dir: reflect.SelectDefault})
	}
	i, rv, ok := reflect.Select(rc)
	if hasDefault && i == len(cases) {
		return -1, reflect.Value{}, false
	}
	return i, rv, ok
}

// Select replaces a select statement. Under simulation the clauses are first
// probed without blocking in an order chosen by the tape (so which ready
// clause wins is the simulator's decision, not the runtime's fastrand); only
// if none is ready does the task block natively, followed by a mandatory yield.
// The result index is the clause index, or -1 for default.
func Select(site int, hasDefault bool, cases ...Case) (int, reflect.Value, bool) {
	return selectImpl(site, hasDefault, false, cases)
}

// SelectLib is Select for a statement with a channel that goroutines of an
// un-instrumented library feed (go-stomp's Subscription.C): whether such a
// channel is ready when probed must not depend on how far those goroutines
// happen to have got while this task was running, so the task first parks
// unconditionally - the scheduler releases it only at quiescence, when every
// library goroutine has done all it can.
func SelectLib(site int, hasDefault bool, cases ...Case) (int, reflect.Value, bool) {
	return selectImpl(site, hasDefault, true, cases)
}

func selectImpl(site int, hasDefault, quiesce bool, cases []Case) (int, reflect.Value, bool) {
	s := cur()
	if s == nil {
		return nativeSelect(hasDefault, cases)
	}
	t := s.me(site)
	if quiesce && t.goid != s.rootG {
		s.park(t, site)
	} else {
		s.pre(t, site)
	}
	n := len(cases)
	var order []int
	if n >= 2 {
		if ps, ok := perms[n]; ok {
			order = ps[s.Tape.Pick("sel", len(ps), func(r *rand.Rand) int { return r.IntN(len(ps)) })]
		} else {
			rot := s.Tape.Intn("sel", n)
			for i := 0; i < n; i++ {
				order = append(order, (i+rot)%n)
			}
		}
	} else {
		order = []int{0}[:n]
	}
	for _, i := range order {
		c := cases[i]
		if c.Chan.IsNil() {
			continue
		}
		if c.Dir == reflect.SelectRecv {
			if rv, ok := c.Chan.TryRecv(); ok || rv.IsValid() {
				return i, rv, ok
			}
			// TryRecv on a closed channel returns (zero, false) with a valid
			// zero value; on an empty open channel it returns an invalid Value.
		} else {
			if c.Chan.TrySend(c.Send) {
				return i, reflect.Value{}, false
			}
		}
	}
	if hasDefault {
		return -1, reflect.Value{}, false
	}
	s.enterNative(t, site)
	i, rv, ok := nativeSelect(false, cases)
	s.park(t, site)
	return i, rv, ok
}

// After1 is wrapped around a library call that may block (nats Flush, stomp
// Unsubscribe, http Do ...): the goroutine may have been blocked natively
// while other tasks ran, so it must re-enter the schedule before going on.
func After1[T any](site int, v T) T {
	Yield(site)
	return v
}

// After2 is After1 for two results.
func After2[A, B any](a A, b B) (A, B) {
	Yield(HarnessSite("lib-return"))
	return a, b
}

// LibToken is the handle between LibEnter and After1L.
type LibToken struct {
	site int
	m    *sync.Mutex
}

// libKey maps a library object to the connection whose internal mutex its
// blocking methods take (go-stomp: Conn.closeMutex, reached from Conn and from
// Subscription methods alike).
func libKey(recv any) uintptr {
	v := reflect.ValueOf(recv)
	if v.Kind() != reflect.Pointer || v.IsNil() {
		return 0
	}
	if e := v.Elem(); e.Kind() == reflect.Struct {
		if f := e.FieldByName("conn"); f.IsValid() && f.Kind() == reflect.Pointer && !f.IsNil() && f.Type().Elem().Kind() == reflect.Struct && f.Type().Elem().Name() == "Conn" {
			return f.Pointer()
		}
	}
	return v.Pointer()
}

// LibEnter precedes (as the first argument of After1L, hence evaluated first)
// a library call that takes a library-internal sync.Mutex and may block while
// holding it (go-stomp's sendFrame hands the frame to an unbuffered channel
// under Conn.closeMutex). A second task entering the same connection would
// block on that real mutex, which synctest does not regard as durably blocked:
// the simulated twin of the mutex makes it wait inside the simulator instead.
func LibEnter(site int, recv any) LibToken {
	s := cur()
	if s == nil {
		return LibToken{site: site}
	}
	k := libKey(recv)
	s.mu.Lock()
	m := s.libLocks[k]
	if m == nil {
		m = new(sync.Mutex)
		s.libLocks[k] = m
	}
	s.mu.Unlock()
	s.lockLoop(s.me(site), site, m, m.TryLock, true)
	return LibToken{site: site, m: m}
}

// After1L is After1 for a call preceded by LibEnter.
func After1L[T any](tok LibToken, v T) T {
	if tok.m != nil {
		Unlock(tok.site, tok.m)
	}
	Yield(tok.site)
	return v
}
