package simrt

import (
	"fmt"
	"reflect"
)

// Eraser-style lockset oracle. A serialising scheduler orders every step, so
// the Go race detector can never fire inside a simulation; instead the
// instrumenter reports accesses to selected shared locations (Mem) and this
// oracle checks the locking discipline: once a location is accessed by a
// second task, every access must hold a common lock (write mode for writes),
// or all accesses must be atomic.

type memLoc struct {
	state    int // 0 virgin, 1 exclusive, 2 shared (read only), 3 shared-modified
	owner    *Task
	lockset  map[any]bool // candidate set; nil = not yet initialised
	lastSite int
	lastW    bool
	reported bool
	keep     any // keeps the object alive so that its address is not reused within the run
}

var atomicPseudoLock = new(int)

// Mem reports an access to the variable p points to. atomic marks accesses
// made through sync/atomic.
func Mem(site int, p any, write bool) { memAccess(site, p, write, false) }

// MemAtomic reports an atomic access and is also an optional scheduling point.
func MemAtomic(site int, p any, write bool) {
	Pre(site)
	memAccess(site, p, write, true)
}

func memAccess(site int, p any, write, atomic bool) {
	s := cur()
	if s == nil || !s.MemOn {
		return
	}
	rv := reflect.ValueOf(p)
	switch rv.Kind() {
	case reflect.Map, reflect.Pointer, reflect.Slice, reflect.Chan, reflect.Func, reflect.UnsafePointer:
	default:
		return
	}
	addr := rv.Pointer()
	if addr == 0 {
		return
	}
	t := s.me(site)
	s.mu.Lock()
	defer s.mu.Unlock()
	l := s.memState[addr]
	if l == nil {
		l = &memLoc{keep: p}
		s.memState[addr] = l
	}
	held := map[any]bool{}
	for _, h := range t.held {
		if !write || h.write {
			held[h.m] = true
		}
	}
	if atomic {
		held[atomicPseudoLock] = true
	}
	switch l.state {
	case 0:
		l.state, l.owner = 1, t
	case 1:
		if l.owner != t {
			l.lockset = held
			if write {
				l.state = 3
			} else {
				l.state = 2
			}
		}
	default:
		for k := range l.lockset {
			if !held[k] {
				delete(l.lockset, k)
			}
		}
		if write {
			l.state = 3
		}
	}
	if l.state == 3 && len(l.lockset) == 0 && !l.reported {
		l.reported = true
		a, b := l.lastSite, site
		s.Violations = append(s.Violations, Violation{
			Class: "lockset-race",
			Key:   fmt.Sprintf("%s|%s", SiteName(a), SiteName(b)),
			Detail: fmt.Sprintf("location %#x: access at %s (write=%v) by %s and earlier access at %s (write=%v) share no lock",
				addr, SiteName(b), write, t.ID, SiteName(a), l.lastW),
			Step: s.Step,
		})
	}
	l.lastSite, l.lastW = site, write
}

// AtomicPre wraps the pointer argument of a sync/atomic call: an optional
// scheduling point plus an atomic access report, evaluated just before the
// atomic operation itself.
func AtomicPre[P any](site int, p P, write bool) P {
	MemAtomic(site, p, write)
	return p
}
