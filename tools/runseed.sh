#!/bin/sh
# $1 = C05/a
export GOFLAGS=-mod=mod GOPROXY=off GOSUMDB=off GOTOOLCHAIN=local
p=$(dirname $1); x=$(basename $1)
cd /verif
if ls /tmp/w12/out/$1/*_test.go >/dev/null 2>&1; then
  python3 tools/seedcheck.py /tmp/w12/out/$1 $p 20 > /tmp/w12/res/$p-$x.txt 2>&1
else
  sh tools/seedscript.sh /tmp/w12/out/$1 $p 20 root > /tmp/w12/res/$p-$x.txt 2>&1
fi
