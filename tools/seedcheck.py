#!/usr/bin/env python3
"""tools/seedcheck.py <src-dir-with-patch.diff-and-demo> <props,comma> [budget]
Confirms a seeded change (compiles, existing tests pass, demo fails with / passes without) in a scratch
worktree of /repo and runs the given checks against it."""
import subprocess, sys, os, glob, shutil, json
src = os.path.abspath(sys.argv[1]); props = sys.argv[2].split(","); budget = sys.argv[3] if len(sys.argv) > 3 else "15"
wt = "/tmp/seedchk-%d" % os.getpid()
def sh(cmd, **kw):
    return subprocess.run(cmd, shell=True, stdout=subprocess.PIPE, stderr=subprocess.STDOUT, text=True, **kw)
NS = "unshare -n sh -c 'ip link set lo up && export GOFLAGS=-mod=mod GOPROXY=off GOSUMDB=off && %s'"
subprocess.run(["git", "-C", "/repo", "worktree", "add", "--detach", wt, "HEAD"], check=True, stdout=subprocess.DEVNULL, stderr=subprocess.DEVNULL)
res = {}
try:
    demos = [f for f in glob.glob(src + "/*_test.go")]
    def run_demo():
        for d in demos: shutil.copy(d, wt + "/lib/go/")
        names = "|".join(sorted(set(l.split("(")[0].split()[1] for d in demos for l in open(d) if l.startswith("func Test"))))
        r = sh(NS % ("cd %s/lib/go && go test -vet=off -count=1 -run \"^(%s)$\" . 2>&1 | tail -3" % (wt, names)), timeout=600)
        for d in demos: os.remove(wt + "/lib/go/" + os.path.basename(d))
        return r.stdout.strip().splitlines()[-1] if r.stdout.strip() else "?"
    res["demo_without"] = run_demo()
    a = sh("cd %s && git apply %s/patch.diff" % (wt, src))
    if a.returncode != 0:
        print("APPLY FAILED", a.stdout); sys.exit(1)
    r = sh(NS % ("cd %s/lib/go && go build ./... && go test -vet=off -count=1 . 2>&1 | tail -1" % wt), timeout=900)
    res["existing_tests_with"] = r.stdout.strip().splitlines()[-1]
    if sh("cd %s && git diff --stat -- compiler main.go | tail -1" % wt).stdout.strip():
        r = sh(NS % ("cd %s && go test -vet=off -count=1 ./compiler/... 2>&1 | tail -3" % wt), timeout=900)
        res["compiler_tests_with"] = r.stdout.strip().splitlines()[-1]
    res["demo_with"] = run_demo()
    for p in props:
        r = subprocess.run([os.environ.get("VERIF_HOME", "/verif") + "/verif", "check", p, "--budget", budget], env=dict(os.environ, VERIF_REPO=wt), stdout=subprocess.PIPE, stderr=subprocess.DEVNULL, text=True)
        lines = [l.strip() for l in r.stdout.splitlines() if l.startswith("VIOLATION") or l.startswith("  class") or l.startswith("INFRA")]
        res["check_" + p] = "exit=%d %s" % (r.returncode, " | ".join(l for l in lines if l.startswith("class"))[:600])
finally:
    subprocess.run(["git", "-C", "/repo", "worktree", "remove", "--force", wt])
print(json.dumps(res, indent=1))
