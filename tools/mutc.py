#!/usr/bin/env python3
"""tools/mutc.py <name> <file> <old> <new> -- <props...>: like mut.py but runs the compiler tests (for compiler mutants)."""
import subprocess, sys, os
name, file, old, new = sys.argv[1:5]
props = sys.argv[6:]
wt = "/tmp/mut-" + name
subprocess.run(["git", "-C", "/repo", "worktree", "remove", "--force", wt], stderr=subprocess.DEVNULL)
subprocess.run(["git", "-C", "/repo", "worktree", "add", "--detach", wt, "HEAD"], check=True, stdout=subprocess.DEVNULL, stderr=subprocess.DEVNULL)
try:
    p = os.path.join(wt, file)
    s = open(p).read()
    assert old in s, "pattern not found"
    open(p, "w").write(s.replace(old, new, 1))
    t = subprocess.run("cd %s && GOFLAGS=-mod=mod go build ./... && GOFLAGS=-mod=mod go test -vet=off -count=1 ./compiler/... 2>&1 | tail -3" % wt, shell=True, stdout=subprocess.PIPE, text=True)
    print("[%s] compiler tests: %s" % (name, t.stdout.strip().replace("\n", " | ")))
    for pr in props:
        r = subprocess.run(["/verif/verif", "check", pr, "--budget", os.environ.get("BUDGET", "15")], env=dict(os.environ, VERIF_REPO=wt), stdout=subprocess.PIPE, stderr=subprocess.DEVNULL, text=True)
        lines = [l for l in r.stdout.splitlines() if l.startswith("VIOLATION") or l.startswith("  class") or l.startswith("INFRA")]
        print("[%s] %s exit=%d %s" % (name, pr, r.returncode, " | ".join(lines[:4])[:700]))
finally:
    subprocess.run(["git", "-C", "/repo", "worktree", "remove", "--force", wt])
