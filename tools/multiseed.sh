#!/bin/sh
# tools/multiseed.sh <from> <to> [budget] [tier]: every check on the unchanged tree under several VERIF_SEED values
# (false-alarm sweep; meant for `vp run`). Prints one line per (seed, check) with the exit status.
export GOFLAGS=-mod=mod GOPROXY=off GOSUMDB=off GOTOOLCHAIN=local
cd "$(dirname "$0")/.."
for s in $(seq ${1:-2} ${2:-6}); do
  for p in C01 C03 C05 C06 C07 C09 C12 C13 C14 C15 C16 C17 C19 C20; do
    out=$(VERIF_SEED=$s ./verif check $p --budget ${3:-20} ${4:+--tier $4} 2>/dev/null)
    rc=$?
    echo "seed=$s $p exit=$rc $(echo "$out" | grep -c '^VIOLATION') violations $(echo "$out" | grep -E '^VIOLATION|class=' | head -4 | tr '\n' ' ' | cut -c1-400)"
  done
done
