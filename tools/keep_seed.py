#!/usr/bin/env python3
"""tools/keep_seed.py <src> <id> <property> <caught-by> <needs...>: store a confirmed seeded change under /verif/seeded/<id>/"""
import sys, os, shutil, json, glob
src, sid, prop, caught = sys.argv[1:5]; needs = " ".join(sys.argv[5:])
d = "/verif/seeded/" + sid
os.makedirs(d, exist_ok=True)
shutil.copy(src + "/patch.diff", d)
for f in glob.glob(src + "/*_test.go"): shutil.copy(f, d + "/" + os.path.basename(f) + ".txt")
if os.path.exists(src + "/notes.md"): shutil.copy(src + "/notes.md", d)
for f in glob.glob(src + "/*.sh"): shutil.copy(f, d + "/" + os.path.basename(f) + ".txt")
for f in glob.glob(src + "/*.frugal"): shutil.copy(f, d)
if os.path.isdir(src + "/idl"): shutil.copytree(src + "/idl", d + "/idl", dirs_exist_ok=True)
json.dump({"id": sid, "property": prop, "needs_to_manifest": needs, "caught_by": caught,
           "confirmed": "tools/seedcheck.py in a scratch worktree of /repo HEAD: patch applies, lib/go builds, existing lib/go tests pass with it, the demo test fails with it and passes without it; then ./verif check <prop> with VERIF_REPO=<worktree>",
           "demo_files": [os.path.basename(f) + ".txt" for f in glob.glob(src + "/*_test.go") + glob.glob(src + "/*.sh")],
           "origin": "independent sub-agent given only the property text and a scratch worktree"}, open(d + "/meta.json", "w"), indent=1)
print("kept", d)
