#!/usr/bin/env python3
"""tools/seedsuite.py [ids...]: apply every stored seeded change (seeded/<id>/patch.diff) to a scratch worktree of
/repo and run the quick check of its property against it; prints which are caught. Regression suite for the checks."""
import json, os, subprocess, sys, glob
HOME = os.path.dirname(os.path.dirname(os.path.abspath(__file__)))  # the tree this script belongs to (a vp-run snapshot stays self-contained)
ids = sys.argv[1:] or sorted(os.path.basename(d) for d in glob.glob(HOME + "/seeded/*"))
budget = os.environ.get("BUDGET", "12")
res = {}
for sid in ids:
    d = HOME + "/seeded/" + sid
    meta = json.load(open(d + "/meta.json"))
    prop = meta["property"]
    wt = "/tmp/seedsuite-" + sid
    subprocess.run(["git", "-C", "/repo", "worktree", "remove", "--force", wt], stderr=subprocess.DEVNULL)
    subprocess.run(["git", "-C", "/repo", "worktree", "add", "--detach", wt, "HEAD"], check=True, stdout=subprocess.DEVNULL, stderr=subprocess.DEVNULL)
    try:
        a = subprocess.run(["git", "-C", wt, "apply", d + "/patch.diff"], stdout=subprocess.PIPE, stderr=subprocess.STDOUT, text=True)
        if a.returncode != 0:
            res[sid] = "PATCH-DOES-NOT-APPLY"
            print(sid, res[sid], flush=True)
            continue
        r = subprocess.run([HOME + "/verif", "check", prop, "--budget", budget], env=dict(os.environ, VERIF_REPO=wt), stdout=subprocess.PIPE, stderr=subprocess.DEVNULL, text=True)
        cls = sorted(set(l.split("class=")[1].split(" ")[0] for l in r.stdout.splitlines() if "class=" in l))
        res[sid] = ("caught " if r.returncode == 1 else "MISSED exit=%d " % r.returncode) + ",".join(cls)[:200]
        print(sid, prop, res[sid], flush=True)
    finally:
        subprocess.run(["git", "-C", "/repo", "worktree", "remove", "--force", wt])
json.dump(res, open("/tmp/seedsuite.json", "w"), indent=1)
print("caught %d of %d" % (sum(1 for v in res.values() if v.startswith("caught")), len(res)))
