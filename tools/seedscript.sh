#!/bin/sh
# usage: seedscript.sh <seeddir> <props,> <budget> <demo args style: root|bin>
export GOFLAGS=-mod=mod GOPROXY=off GOSUMDB=off GOTOOLCHAIN=local
src=$1; props=$2; budget=${3:-20}; style=${4:-root}
wt=/tmp/seedchk-s$$
git -C /repo worktree add --detach $wt HEAD >/dev/null 2>&1
rundemo() {
  if [ $style = root ]; then sh $src/demo.sh $wt >/tmp/demo.$$.log 2>&1; echo "exit=$?";
  else (cd $wt && go build -o /tmp/frugal-bin-$$ . ) && unshare -n sh -c "ip link set lo up; sh $src/demo.sh /tmp/frugal-bin-$$" >/tmp/demo.$$.log 2>&1; echo "exit=$?"; rm -f /tmp/frugal-bin-$$; fi
}
echo "demo_without: $(rundemo)"
(cd $wt && git apply $src/patch.diff) || { echo APPLY FAILED; exit 1; }
echo "libgo tests with: $(cd $wt/lib/go && unshare -n sh -c 'ip link set lo up && go test -vet=off -count=1 . 2>&1 | tail -1')"
echo "compiler tests with: $(cd $wt && go test -vet=off -count=1 ./compiler/... 2>&1 | tail -3 | tr '\n' ' ')"
echo "demo_with: $(rundemo)"; tail -5 /tmp/demo.$$.log
(cd $wt && git status --short | head -5)
for p in $(echo $props | tr , ' '); do
  out=$(VERIF_REPO=$wt ${VERIF_HOME:-/verif}/verif check $p --budget $budget 2>/dev/null | grep -E "^VIOLATION|class=|INFRA" | head -6 | cut -c1-300)
  echo "check_$p: $out"
done
git -C /repo worktree remove --force $wt
rm -f /tmp/demo.$$.log
