package harness

import (
	"bytes"
	"encoding/base64"
	"encoding/binary"
	"fmt"
	"io"
	"math/big"
	"math/rand/v2"
	"net"
	"net/http"
	"sort"
	"strconv"
	"strings"
	"syscall"
	"time"

	frugal "github.com/Workiva/frugal/lib/go"
	"github.com/apache/thrift/lib/go/thrift"
	"github.com/nats-io/nats.go"
	"verif/simrt"
)

// mux harness (DESIGN.md §3 C01, C06, C13): caller tasks share one client
// transport; an adversarial peer decides per request what comes back.

type muxDelivery struct {
	kind          string
	handedStep    int
	deliveredAt   time.Duration // simulated time the whole frame became readable; -1 = not yet
	deliveredStep int
}

type muxCall struct {
	publishStall  time.Duration // NATS: how long the publish of this request is held up by a congested path
	id            int
	caller        int
	opid          string
	tag           string
	timeout       time.Duration
	oneway        bool
	invokeAt      time.Duration
	invokeStep    int
	returned      bool
	returnAt      time.Duration
	returnStep    int
	err           error
	resp          []byte
	sendFault     string // "", "write-err", "flush-err", "write-block", "flush-block"
	n503          int
	plan          string
	seen          bool
	deliveries    []*muxDelivery
	deliveries503 []*muxDelivery
	ctx           frugal.FContext
	prev          *muxCall // the same caller's previous call
	ctxReused     bool     // a later call was made with this call's FContext
}

type muxState struct {
	kind        string                                          // adapter | nats
	send        func(d *muxDelivery, opid string, frame []byte) // hand a response frame to the wire now
	send503     func(d *muxDelivery, subjectSuffix string)
	hangup      func()
	flooded     bool
	cbDelay     time.Duration // time the application's own per-call header callback takes (HTTP)
	byDseq      map[string]*muxDelivery
	pending503  map[string][]*muxDelivery
	rc          *RunCtx
	s           *simrt.Sim
	calls       []*muxCall
	byTag       map[string]*muxCall
	bySeq       map[int]*muxDelivery
	prof        muxProfile
	evN         int
	extraFrames int
}

type muxProfile struct {
	// weights of peer behaviours: once, dup, never, late, unknown, stale
	w            [6]int
	sendFaultPct int
}

func muxProfileFor(prop string) muxProfile {
	switch prop {
	case "C06":
		return muxProfile{w: [6]int{30, 40, 5, 5, 10, 10}, sendFaultPct: 4}
	case "C13":
		return muxProfile{w: [6]int{30, 5, 30, 25, 5, 5}, sendFaultPct: 25}
	default: // C01
		return muxProfile{w: [6]int{45, 20, 8, 7, 10, 10}, sendFaultPct: 5}
	}
}

func isTimedOut(err error) bool {
	te, ok := err.(thrift.TTransportException)
	return ok && te.TypeId() == frugal.TRANSPORT_EXCEPTION_TIMED_OUT
}

var muxTimeouts = []time.Duration{20 * time.Millisecond, 50 * time.Millisecond, 200 * time.Millisecond, time.Second, 5 * time.Second, 30 * time.Second}

func init() { Register("mux", muxHarness) }

func muxHarness(rc *RunCtx) {
	tp := rc.Tape
	nCallers := 1 + tp.Biased("cfg", rc.Scale(6, 10))
	perCaller := 1 + tp.Biased("cfg", rc.Scale(3, 6))
	crowd := tp.Intn("cfg", 12) == 0
	if crowd {
		// many requests outstanding at once on one transport
		nCallers, perCaller = 34+tp.Intn("cfg", 16), 1
	}
	rc.AllowStalls = true
	s := rc.NewSim(rc.Scale(20000, 60000), 10*time.Minute)
	if crowd {
		rc.Probe("more-than-32-callers-on-one-transport")
	}
	m := &muxState{rc: rc, s: s, byTag: map[string]*muxCall{}, bySeq: map[int]*muxDelivery{}, prof: muxProfileFor(rc.Prop)}
	rc.Sample["callers"] = nCallers
	rc.Sample["requests_per_caller"] = perCaller
	rc.Sample["transport"] = "adapter"
	if nCallers > 1 {
		rc.Nontrivial = true
	}

	kind := "adapter"
	if rc.Params["transport"] != "" {
		kind = rc.Params["transport"]
	} else {
		switch tp.Intn("cfg", 5) {
		case 0:
			kind = "nats"
		case 1:
			kind = "http"
		}
	}
	m.kind = kind
	m.byDseq = map[string]*muxDelivery{}
	m.pending503 = map[string][]*muxDelivery{}
	rc.Sample["transport"] = kind
	var st *SimStream
	var b *SimBroker
	var tr frugal.FTransport
	var blockedWrites int
	var lastWritten *muxCall
	natsSmallPayload := false
	natsReconnect := false
	var natsConn *nats.Conn
	// inbox names with and without digits (the reply subject is <inbox>.<opid>)
	inbox := []string{"_INBOX.cli", "_INBOX.a2Zk01", "client1"}[tp.Intn("cfg", 3)]
	if kind == "adapter" {
		st = NewSimStream(rc, "c0")
		tr = frugal.NewAdapterTransport(st)
		st.OnFrame = func(frame []byte) { m.onRequest(frame) }
		m.hangup = func() { st.PeerEnd(nil) }
		st.OnDelivered = func(seq int) {
			if d := m.bySeq[seq]; d != nil {
				d.deliveredAt = s.Now()
				d.deliveredStep = s.Step
			}
		}
		type heldFrame struct {
			d     *muxDelivery
			frame []byte
		}
		var tailRest []byte
		var held []heldFrame
		tailEpoch := 0
		m.send = func(d *muxDelivery, opid string, frame []byte) {
			if tailRest != nil && tailEpoch != st.Epoch {
				// that connection is gone, and the unfinished frame with it
				tailRest, held = nil, nil
			}
			if tailRest != nil {
				// the peer is in the middle of sending a frame: what it sends next comes after the rest of that frame
				held = append(held, heldFrame{d, frame})
				return
			}
			if tp.Intn("trailhalf", 8) == 1 {
				// the bytes of this response arrive together with the first part of the peer's next frame (one for an
				// op id nobody waits for), whose rest takes its time: the complete response is due now, not then
				rc.Fault("response-followed-by-the-first-part-of-another-frame")
				m.evN++
				unk := EncodeFrame(map[string]string{"_opid": strconv.Itoa(3000000 + m.evN), "_cid": "x", "tag": "nobody"}, []byte("resp:nobody-in-two-parts"))
				k := 1 + tp.Intn("trailhalf", len(unk)-1)
				// (two items back to back: the response counts as delivered when ITS last byte is readable)
				seq := st.PeerWrite(frame)
				m.bySeq[seq] = d
				st.PeerWrite(unk[:k])
				tailRest = unk[k:]
				tailEpoch = st.Epoch
				ep := st.Epoch
				delay := []time.Duration{50 * time.Millisecond, 700 * time.Millisecond, 3 * time.Second}[tp.Intn("trailhalf", 3)]
				m.s.AddEvent(fmt.Sprintf("peer:%03d:rest-of-frame", m.evN), delay, func() {
					if st.Epoch != ep {
						return
					}
					st.PeerWrite(tailRest)
					tailRest = nil
					hs := held
					held = nil
					for _, h := range hs {
						m.bySeq[st.PeerWrite(h.frame)] = h.d
					}
				})
				return
			}
			seq := st.PeerWrite(frame)
			m.bySeq[seq] = d
		}
		// per-call send faults are decided when the call is created; the stream
		// consults the call by decoding the tag of what is being written
		st.WriteFault = func(i int, p []byte) (error, bool) {
			f, err := DecodeFrame(p)
			if err != nil {
				return nil, false
			}
			c := m.byTag[f.Headers["tag"]]
			if c == nil {
				return nil, false
			}
			switch c.sendFault {
			case "write-err":
				rc.Fault("write-error")
				return thrift.NewTTransportException(thrift.UNKNOWN_TRANSPORT_EXCEPTION, "write: broken pipe"), false
			case "write-block":
				rc.Fault("write-blocks-forever")
				blockedWrites++
				return nil, true
			}
			return nil, false
		}
		st.WriteDelay = func(p []byte) time.Duration {
			f, err := DecodeFrame(p)
			if err != nil {
				return 0
			}
			if c := m.byTag[f.Headers["tag"]]; c != nil && c.sendFault == "write-slow" {
				// the write goes through, but only after most of the call's timeout
				rc.Fault("write-slow-but-completes")
				return c.timeout * 7 / 10
			}
			return 0
		}
		st.FlushFault = func(i int) (error, bool) {
			c := lastWritten
			if c == nil {
				return nil, false
			}
			switch c.sendFault {
			case "flush-err":
				rc.Fault("flush-error")
				return thrift.NewTTransportException(thrift.UNKNOWN_TRANSPORT_EXCEPTION, "flush: broken pipe"), false
			case "flush-block":
				rc.Fault("flush-blocks-forever")
				blockedWrites++
				return nil, true
			}
			return nil, false
		}
	} else if kind == "http" {
		hc := &http.Client{Transport: &muxRoundTripper{m: m}}
		if k := tp.Intn("clienttmo", 5); k >= 3 {
			// the application's http.Client has an overall Timeout of its own, far above any call's timeout (a common
			// way to configure one): the call's own timeout still bounds each call
			hc.Timeout = []time.Duration{5 * time.Minute, time.Hour}[k-3]
			rc.Fault("http-client-with-its-own-long-timeout")
		}
		bld := frugal.NewFHTTPTransportBuilder(hc, "http://sim/frugal")
		if tp.Intn("hdrcb", 3) == 2 {
			// the application computes extra HTTP headers per call (a token lookup, say), which takes time:
			// that time is part of the call
			cbDelay := []time.Duration{time.Millisecond, 40 * time.Millisecond, 300 * time.Millisecond}[tp.Intn("hdrcb", 3)]
			rc.Fault("slow-request-header-callback")
			m.cbDelay = cbDelay
			siteCB := simrt.HarnessSite("mux.http-header-callback")
			bld = bld.WithRequestHeadersFromFContext(func(fc frugal.FContext) map[string]string {
				simrt.Block(siteCB)
				time.Sleep(cbDelay)
				simrt.Yield(siteCB)
				return map[string]string{"x-app-token": "t"}
			})
		}
		tr = bld.Build()
	} else {
		b = NewSimBroker(rc)
		if tp.Intn("natsreconn", 3) == 2 {
			// the application's NATS connection rides out server restarts (nats.go's default): between servers its
			// status is RECONNECTING and what is published waits in the client's buffer
			natsReconnect = true
			b.ConnOptions = append(b.ConnOptions, func(o *nats.Options) error {
				o.AllowReconnect, o.MaxReconnect, o.ReconnectWait, o.NoRandomize = true, -1, 20*time.Millisecond, true
				o.ReconnectJitter, o.ReconnectJitterTLS = 0, 0
				return nil
			})
		}
		if tp.Intn("cfg", 4) == 0 {
			// a server whose max_payload is below frugal's own 1 MiB limit: publishing a larger request fails after it was registered
			b.MaxPayload = 400
			natsSmallPayload = true
		}
		b.OnPublish = func(c *BrokerConn, subject, reply string, hdr, data []byte) bool {
			if subject == "svc" {
				m.onRequest(data)
				return true
			}
			return false
		}
		b.OnDeliver = func(c *BrokerConn, subject string, data []byte) {
			if len(data) == 0 {
				q := m.pending503[subject]
				if len(q) > 0 {
					q[0].deliveredAt, q[0].deliveredStep = s.Now(), s.Step
					m.pending503[subject] = q[1:]
				}
				return
			}
			if f, err := DecodeFrame(data); err == nil {
				if d := m.byDseq[f.Headers["dseq"]]; d != nil {
					d.deliveredAt, d.deliveredStep = s.Now(), s.Step
				}
			}
		}
		m.send = func(d *muxDelivery, opid string, frame []byte) {
			suffix := opid
			if tp.Intn("subj", 6) == 5 {
				// a responder that answers on some other reply subject of the same inbox:
				// the frame's own op id still says whose response it is
				switch k := tp.Intn("subj", 3); {
				case k == 0 && len(m.calls) > 0:
					if o := m.calls[tp.Intn("subj", len(m.calls))].opid; o != "" {
						suffix = o
					}
				case k == 1:
					suffix = "987654321"
				default:
					suffix = "zz"
				}
				if suffix != opid {
					rc.Fault("response-on-foreign-reply-subject")
				}
			}
			b.Route(inbox+"."+suffix, "", nil, frame)
		}
		m.send503 = func(d *muxDelivery, suffix string) {
			subj := inbox + "." + suffix
			m.pending503[subj] = append(m.pending503[subj], d)
			b.Route(subj, "", []byte("NATS/1.0 503\r\n\r\n"), nil)
		}
	}

	finished := false
	meddling := false
	var infra string
	var canary *muxCall
	doneC := make(chan int, nCallers)
	siteDone := simrt.HarnessSite("mux.caller-done")

	// family: when set, every call's FContext is a clone of one context that has already made a call (distinct
	// FContexts with fresh op ids, but whatever a transport attached to the first one travels with the clones)
	var family frugal.FContext
	familyWrapped := tp.Intn("ctxfamilywrap", 2) == 1
	doCall := func(c *muxCall) {
		ctx := frugal.NewFContext(fmt.Sprintf("cid-%d", c.id))
		if family != nil && c.tag != "warm" {
			ctx = frugal.Clone(family)
			if familyWrapped {
				// the application's own context type (a decorator embedding frugal.FContext): frugal.Clone takes its
				// generic path, and the clone is a distinct FContext like any other
				ctx = frugal.Clone(&muxTraced{FContext: family})
			}
		} else if c.tag == "warm" {
			family = ctx
		}
		if p := c.prev; p != nil && family == nil && p.returned && p.plan == "never" && p.sendFault == "" && p.seen && !p.oneway && p.err != nil && len(p.deliveries) == 0 && len(p.deliveries503) == 0 && tp.Intn("retryctx", 2) == 1 {
			// a retry with the same FContext after a request that was never answered (the API allows reusing a context
			// once its call is over): nothing was ever sent for this op id, so whatever arrives for it now is the
			// retry's response
			ctx = p.ctx
			p.ctxReused = true
			rc.Fault("retry-with-the-same-context-after-an-unanswered-request")
		}
		c.ctx = ctx
		ctx.SetTimeout(c.timeout)
		c.opid, _ = ctx.RequestHeader("_opid")
		h := ctx.RequestHeaders()
		h["tag"] = c.tag
		body := "req:" + c.tag
		if c.sendFault == "nats-max-payload" {
			body += strings.Repeat("p", 600)
		}
		payload := EncodeFrame(h, []byte(body))
		if b != nil && c.plan != "canary" && tp.Intn("bstall", 8) == 7 {
			// the broker stops reading from this client for a while, starting now
			if bc := b.Conn(0); bc != nil {
				d := c.timeout * time.Duration(1+tp.Intn("bstall", 15)) / 10
				bc.StallInbound(d)
				rc.Fault("broker-ignores-client-for-a-while")
			}
		}
		c.invokeAt, c.invokeStep = s.Now(), s.Step
		if c.oneway {
			c.err = tr.Oneway(ctx, payload)
		} else {
			res, err := tr.Request(ctx, payload)
			c.err = err
			if tp.Intn("lateread", 4) == 3 {
				// the caller is descheduled between getting its result and looking into it
				simrt.Yield(simrt.HarnessSite("mux.before-reading-the-response"))
			}
			if err == nil && res != nil {
				c.resp, _ = io.ReadAll(res)
			}
		}
		c.returnAt, c.returnStep, c.returned = s.Now(), s.Step, true
	}

	s.GoRoot("main", "main", func() {
		if kind == "nats" {
			nc, err := b.Connect("client")
			if err != nil {
				infra = "connect: " + err.Error()
				finished = true
				return
			}
			natsConn = nc
			tr = frugal.NewFNatsTransport(nc, "svc", inbox)
		}
		if err := tr.Open(); err != nil {
			infra = "open: " + err.Error()
			finished = true
			return
		}
		if kind == "adapter" && tp.Intn("reconn", 6) == 5 {
			// an earlier connection died in the middle of a frame and the transport was opened again:
			// nothing of the dead connection may reach into this one
			rc.Fault("connection-lost-mid-frame-then-reopened")
			size := []int{50, 5000, 70000, 1 << 20}[tp.Intn("reconn", 4)]
			k := tp.Intn("reconn", 60)
			partial := make([]byte, 4+k)
			binary.BigEndian.PutUint32(partial, uint32(size))
			ch := tr.Closed()
			st.PeerWrite(partial)
			st.PeerEnd(nil)
			simrt.Recv(simrt.HarnessSite("mux.wait-closed"), ch)
			if err := tr.Open(); err != nil {
				infra = "reopen: " + err.Error()
				finished = true
				return
			}
		}
		if tp.Intn("meddler", 4) == 3 {
			// somebody else in the application keeps asking the same transport whether it is open and
			// "opens" it again to be sure (ALREADY_OPEN): harmless calls that take the transport's lock
			rc.Fault("redundant-open-and-isopen-calls-during-the-workload")
			meddling = true
			nMeddle := 1 + tp.Intn("meddler", 12)
			s.Go("meddler", func() {
				for i := 0; i < nMeddle && meddling; i++ {
					settle(time.Duration(tp.Intn("meddler", 30)) * time.Millisecond)
					if tp.Intn("meddler", 2) == 0 {
						tr.Open()
					} else {
						tr.IsOpen()
					}
				}
			})
		}
		if tp.Intn("ctxfamily", 3) == 1 {
			rc.Fault("contexts-cloned-from-one-that-already-made-a-call")
			warm := &muxCall{id: len(m.calls), caller: -1, tag: "warm", timeout: 2 * time.Second, plan: "canary"}
			m.calls = append(m.calls, warm)
			m.byTag[warm.tag] = warm
			doCall(warm)
		}
		for i := 0; i < nCallers; i++ {
			i := i
			var mine []*muxCall
			for j := 0; j < perCaller; j++ {
				c := &muxCall{id: len(m.calls), caller: i}
				c.tag = fmt.Sprintf("t%d", c.id)
				c.timeout = muxTimeouts[tp.Intn("cfg", len(muxTimeouts))]
				if k := tp.Intn("oddtmo", 4); k == 3 {
					// timeouts that are not a multiple of any convenient polling interval
					c.timeout = []time.Duration{300 * time.Millisecond, 620 * time.Millisecond, 1234 * time.Millisecond, 77 * time.Millisecond, 2*time.Second + 1*time.Millisecond}[tp.Intn("oddtmo", 5)]
				}
				if rc.Prop == "C13" && tp.Bool("cfg", 1, 5) {
					c.oneway = true
				}
				if kind == "adapter" && tp.Pick("cfg", 100, nil) < m.prof.sendFaultPct {
					c.sendFault = []string{"write-err", "write-block", "flush-err", "flush-block"}[tp.Intn("cfg", 4)]
					if tp.Intn("wslow", 3) == 2 {
						c.sendFault = "write-slow"
					}
					// flush faults need to know which call is being flushed; with
					// concurrent senders that is ambiguous, so only the write
					// variants are used when there is more than one caller
					if nCallers > 1 && (c.sendFault == "flush-err" || c.sendFault == "flush-block") {
						c.sendFault = "write" + c.sendFault[5:]
					}
				}
				if natsSmallPayload && tp.Intn("cfg", 3) == 0 {
					c.sendFault = "nats-max-payload"
					rc.Fault("nats-publish-refused-max-payload")
				}
				m.calls = append(m.calls, c)
				m.byTag[c.tag] = c
				if len(mine) > 0 {
					c.prev = mine[len(mine)-1]
				}
				mine = append(mine, c)
			}
			s.Go("caller", func() {
				for _, c := range mine {
					if nCallers == 1 {
						lastWritten = c
					}
					doCall(c)
				}
				simrt.Send(siteDone, doneC, i)
			})
		}
		for i := 0; i < nCallers; i++ {
			simrt.Recv(siteDone, doneC)
		}
		meddling = false
		// canary: a fresh request answered at once must complete (bounded
		// progress after the adversarial prefix; "after": once injected stalls are over)
		if b != nil {
			if bc := b.Conn(0); bc != nil && bc.StallUntil > s.Now() {
				settle(bc.StallUntil - s.Now())
			}
			if bc := b.Conn(0); bc != nil && bc.ReadStallUntil > s.Now() {
				settle(bc.ReadStallUntil - s.Now())
			}
		}
		lastWritten = nil
		canary = &muxCall{id: len(m.calls), caller: -1, tag: "canary", timeout: 2 * time.Second, plan: "canary"}
		m.calls = append(m.calls, canary)
		m.byTag[canary.tag] = canary
		doCall(canary)
		if kind == "adapter" {
			switch tp.Intn("epilogue", 4) {
			case 2:
				// the peer reads one more request and hangs up without answering: the call still has to return
				// by its deadline and leave nothing behind
				rc.Fault("peer-hangs-up-after-reading-a-request")
				last := &muxCall{id: len(m.calls), caller: -1, tag: "hangup", timeout: muxTimeouts[tp.Intn("epilogue", len(muxTimeouts))], plan: "hangup"}
				m.calls = append(m.calls, last)
				m.byTag[last.tag] = last
				doCall(last)
			case 3:
				// the application closes the transport while a call is waiting for its response
				rc.Fault("transport-closed-while-a-call-waits")
				last := &muxCall{id: len(m.calls), caller: -1, tag: "closed-under", timeout: muxTimeouts[tp.Intn("epilogue", len(muxTimeouts))], plan: "closed-under", sendFault: "closed-under"}
				m.calls = append(m.calls, last)
				m.byTag[last.tag] = last
				s.AddEvent("app:close-under-call", last.timeout*time.Duration(1+tp.Intn("epilogue", 8))/10, func() {
					s.GoRoot("closer", "closer", func() { tr.Close() })
				})
				doCall(last)
			case 0, 1:
				if tp.Intn("slowdial", 2) == 0 {
					break
				}
				// the connection goes away; opening a new one takes its time (a peer that does not complete the
				// handshake). A call made meanwhile - with nobody reopening, or while the application or a monitor is
				// in the middle of that slow Open - is still over by its deadline
				rc.Fault("call-while-the-connection-is-gone-and-dialling-is-slow")
				ch := tr.Closed()
				st.PeerEnd(nil)
				simrt.Recv(simrt.HarnessSite("mux.wait-closed"), ch)
				last := &muxCall{id: len(m.calls), caller: -1, tag: "gone", timeout: muxTimeouts[tp.Intn("slowdial", len(muxTimeouts))], plan: "canary", sendFault: "connection-gone"}
				m.calls = append(m.calls, last)
				m.byTag[last.tag] = last
				dial := last.timeout * time.Duration(5+tp.Intn("slowdial", 26)) / 10
				siteDial := simrt.HarnessSite("mux.slow-dial")
				st.OpenFault = func(int) error {
					simrt.Block(siteDial)
					time.Sleep(dial)
					simrt.Yield(siteDial)
					return nil
				}
				reopening := tp.Intn("slowdial", 2) == 1
				reopened := make(chan error, 1)
				if reopening {
					s.Go("reopener", func() { simrt.Send(siteDone, reopened, tr.Open()) })
					settle(dial / 4)
				}
				doCall(last)
				if reopening {
					if err := simrt.Recv(siteDone, reopened); err == nil {
						// the new connection works
						st.OpenFault = nil
						again := &muxCall{id: len(m.calls), caller: -1, tag: "after-redial", timeout: 2 * time.Second, plan: "canary"}
						m.calls = append(m.calls, again)
						m.byTag[again.tag] = again
						doCall(again)
						if again.err != nil && !m.s.AnyStall(again.invokeAt, again.returnAt) {
							rc.Violate("C06", "canary-failed", kind+" after a slow reopen", fmt.Sprintf("%v", again.err))
						}
					}
				}
				st.OpenFault = nil
			}
		}
		if kind == "nats" && natsReconnect {
			// the NATS server goes away while a call is under way (before, during or after its publish) and comes back
			// some time later, before or after the call's deadline: whatever becomes of the request, the call is over by
			// its deadline, and a response that does reach the client in time completes it
			rc.Fault("nats-server-outage-during-a-call")
			last := &muxCall{id: len(m.calls), caller: -1, tag: "outage", timeout: muxTimeouts[tp.Intn("outage", len(muxTimeouts))], plan: "outage", sendFault: "outage"}
			m.calls = append(m.calls, last)
			m.byTag[last.tag] = last
			downAfter := last.timeout * time.Duration(tp.Intn("outage", 6)) / 10
			upAfter := downAfter + last.timeout*time.Duration(1+tp.Intn("outage", 12))/10
			t0 := s.Now()
			s.AddEvent("env:nats-server-down", downAfter, func() { b.GoDown() })
			s.AddEvent("env:nats-server-back", upAfter, func() { b.ComeBack() })
			doCall(last)
			if rest := t0 + upAfter + 300*time.Millisecond - s.Now(); rest > 0 {
				settle(rest)
			}
		}
		tr.Close()
		if natsConn != nil && natsReconnect {
			natsConn.Close()
		}
		finished = true
	})

	s.Run(func() bool { return finished && (b == nil || b.Pending() == 0) })

	// ---- oracles ----
	if infra != "" {
		rc.Violate("INFRA", "setup", infra, infra)
	}
	if tr != nil {
		m.check(tr, canary, finished, blockedWrites)
	}
	s.Shutdown()
	if st != nil {
		st.Kill()
	}
	if b != nil {
		b.Kill()
	}
}

// onRequest runs on the sender's task each time the system under test has
// written a complete request frame.
// muxTraced: an application-defined FContext (hides FContextImpl's own Clone and the ephemeral-property methods).
type muxTraced struct {
	frugal.FContext
	span string
}

func (m *muxState) onRequest(frame []byte) {
	f, err := DecodeFrame(frame)
	if err != nil {
		// every request handed to the transport is a well-formed frame: what arrives garbled was garbled by it
		m.rc.Violate("C01", "request-garbled-on-the-wire", m.kind, err.Error())
		return
	}
	c := m.byTag[f.Headers["tag"]]
	if c == nil {
		m.rc.Violate("INFRA", "peer-unknown-tag", "request", f.Headers["tag"])
		return
	}
	if f.Headers["_opid"] != c.opid {
		m.rc.Violate("C01", "request-opid-mismatch", m.kind, fmt.Sprintf("call %d sent opid %q, context has %q", c.id, f.Headers["_opid"], c.opid))
	}
	c.seen = true
	if c.oneway {
		return
	}
	tp := m.rc.Tape
	respond := func(kind string, opid string, tag string, delay time.Duration, owner *muxCall) {
		m.evN++
		d := &muxDelivery{kind: kind, deliveredAt: -1}
		if owner != nil {
			owner.deliveries = append(owner.deliveries, d)
		}
		dseq := strconv.Itoa(m.evN)
		m.byDseq[dseq] = d
		cid := "x"
		if tp.Intn("cidembed", 6) == 5 {
			// header values are byte strings: a correlation id (echoed by servers, chosen by whoever made the call) may
			// happen to contain what an op id header of another pending call looks like on the wire. It sorts before
			// "_opid" in the block; only a parser that walks the block pair by pair is right about whose response this is
			for _, o := range m.calls {
				if o.seen && o.opid != "" && o.opid != opid && !strings.HasPrefix(opid, o.opid+"|") {
					cid = "c\x00\x00\x00\x05_opid" + string(binary.BigEndian.AppendUint32(nil, uint32(len(o.opid)))) + o.opid
					m.rc.Fault("header-value-that-looks-like-another-calls-opid-header")
					break
				}
			}
		}
		body := EncodeFrame(map[string]string{"_opid": opid, "_cid": cid, "tag": tag, "dseq": dseq}, []byte("resp:"+tag))
		route := opid
		if i := strings.Index(opid, "|via:"); i >= 0 {
			// "<op id written into the frame>|via:<reply-subject suffix>"
			opid, route = opid[:i], opid[i+5:]
			body = EncodeFrame(map[string]string{"_opid": opid, "_cid": cid, "tag": tag, "dseq": dseq}, []byte("resp:"+tag))
		}
		m.s.AddEvent(fmt.Sprintf("peer:%03d:%s", m.evN, kind), delay, func() {
			d.handedStep = m.s.Step
			m.send(d, route, body)
		})
	}
	if c.plan == "canary" {
		respond("answer", c.opid, c.tag, 0, c)
		return
	}
	if c.plan == "hangup" {
		m.evN++
		m.s.AddEvent(fmt.Sprintf("peer:%03d:hangup", m.evN), time.Duration(tp.Intn("epilogue", 4))*time.Millisecond, func() { m.hangup() })
		return
	}
	if c.plan == "closed-under" {
		return
	}
	if c.plan == "outage" {
		// the responder answers what reaches it, at once or after a while, or not at all
		switch k := tp.Intn("outage", 4); k {
		case 0:
		case 1:
			respond("answer", c.opid, c.tag, 0, c)
		default:
			respond("answer", c.opid, c.tag, c.timeout*time.Duration(1+tp.Intn("outage", 9))/10, c)
		}
		return
	}
	// small random service delay, well inside any timeout
	jitter := func() time.Duration { return time.Duration(tp.Intn("peer", 4)) * time.Millisecond }
	k := tp.Pick("peer", 6, func(r *rand.Rand) int {
		tot := 0
		for _, w := range m.prof.w {
			tot += w
		}
		x := r.IntN(tot)
		for i, w := range m.prof.w {
			if x < w {
				return i
			}
			x -= w
		}
		return 0
	})
	if m.kind == "nats" && k != 0 && tp.Intn("peer", 3) == 0 {
		k = 6 + tp.Intn("peer", 3)
	}
	status503 := func(kind, suffix string, owner *muxCall, delay time.Duration) {
		m.evN++
		d := &muxDelivery{kind: kind, deliveredAt: -1}
		if owner != nil {
			owner.deliveries503 = append(owner.deliveries503, d)
		}
		m.s.AddEvent(fmt.Sprintf("peer:%03d:%s", m.evN, kind), delay, func() {
			d.handedStep = m.s.Step
			m.send503(d, suffix)
		})
	}
	switch k {
	case 6:
		c.plan = "503"
		m.rc.Fault("status-503-for-own-request")
		status503("503", c.opid, c, jitter())
		for i, n := 0, []int{0, 0, 1, 2}[tp.Intn("dup503", 4)]; i < n; i++ {
			// the same "no responders" status again (a second server of a cluster, a retry of the notice)
			m.rc.Fault("status-503-duplicated")
			status503("503", c.opid, c, jitter())
		}
	case 7:
		c.plan = "once+503-on-garbage-subject"
		m.rc.Fault("status-503-on-garbage-subject")
		status503("503-garbage", "not-a-number", nil, jitter())
		respond("answer", c.opid, c.tag, jitter(), c)
	case 8:
		c.plan = "once+503-for-other"
		respond("answer", c.opid, c.tag, jitter(), c)
		var pend []*muxCall
		for _, o := range m.calls {
			if o != c && o.seen && !o.returned && !o.oneway {
				pend = append(pend, o)
			}
		}
		if len(pend) > 0 {
			o := pend[tp.Intn("peer", len(pend))]
			m.rc.Fault("status-503-on-another-pending-request")
			status503("503-other", o.opid, o, jitter())
		}
	case 0:
		c.plan = "once"
		respond("answer", c.opid, c.tag, jitter(), c)
	case 1:
		n := 2 + tp.Intn("peer", 3)
		c.plan = fmt.Sprintf("dup x%d", n)
		m.rc.Fault("duplicate-response")
		if n >= 3 {
			m.rc.Probe("three-or-more-frames-for-one-opid")
		}
		for i := 0; i < n; i++ {
			respond("dup", c.opid, c.tag, jitter(), c)
		}
	case 2:
		c.plan = "never"
		m.rc.Fault("no-response")
	case 3:
		c.plan = "late"
		m.rc.Fault("late-response")
		lateBy := time.Duration(1+tp.Intn("peer", 50)) * time.Millisecond
		if tp.Intn("atdeadline", 3) == 2 {
			// the response becomes readable in the very instant the deadline passes (either outcome is fine for
			// this call; what it leaves behind for the next one is another matter)
			lateBy = 0
			m.rc.Fault("response-at-the-deadline-instant")
		}
		respond("late", c.opid, c.tag, c.timeout+lateBy, c)
	case 4:
		c.plan = "once+unknown-opid"
		m.rc.Fault("unknown-opid-frame")
		if !m.flooded && tp.Intn("flood", 12) == 11 {
			// a peer that keeps sending frames nobody waits for: whatever the transport does with a frame it
			// discards, it has to do it for as many as arrive
			m.flooded = true
			m.rc.Fault("flood-of-frames-for-unknown-op-ids")
			for i, n := 0, 140+tp.Intn("flood", 200); i < n; i++ {
				respond("unknown", strconv.Itoa(2000000+i), "nobody", 0, nil)
			}
		}
		unknown := strconv.Itoa(1000000 + c.id)
		if v := tp.Intn("opidform", 8); m.kind == "nats" && v >= 3 {
			// op ids nobody issued that a sloppy parser maps onto THIS call's id (message-oriented transport:
			// an unparsable op id concerns that one message only)
			k, _ := strconv.ParseUint(c.opid, 10, 64)
			wrapped := new(big.Int).Add(new(big.Int).SetUint64(k), new(big.Int).Lsh(big.NewInt(1), 64)).String()
			unknown = []string{wrapped, "+" + c.opid, c.opid + " ", "-" + c.opid, c.opid + ".0"}[v-3] + "|via:" + c.opid
			m.rc.Fault("never-issued-opid-that-a-sloppy-parser-maps-onto-a-pending-call")
		}
		if v := tp.Intn("opidform2", 8); m.kind == "nats" && v >= 1 && v <= 6 {
			// the same for a parser that guesses the base from a prefix, or tolerates digit separators (a bare
			// leading zero is not among the forms: "012" IS the decimal id 12, zero-padded)
			k, _ := strconv.ParseUint(c.opid, 10, 64)
			form := []string{fmt.Sprintf("0x%x", k), fmt.Sprintf("0x%X", k), fmt.Sprintf("0o%o", k), fmt.Sprintf("0b%b", k), fmt.Sprintf("0X%X", k), ""}[v-1]
			if form == "" {
				form = c.opid[:1] + "_" + c.opid[1:]
				if len(c.opid) < 2 {
					form = "0_" + c.opid
				}
			}
			unknown = form + "|via:" + c.opid
			m.rc.Fault("never-issued-opid-that-a-sloppy-parser-maps-onto-a-pending-call")
		}
		respond("unknown", unknown, "nobody", jitter(), nil)
		respond("answer", c.opid, c.tag, jitter(), c)
	case 5:
		c.plan = "once+stale"
		m.rc.Fault("stale-opid-frame")
		respond("answer", c.opid, c.tag, jitter(), c)
		// a frame for an already completed (or timed out) op id of another call
		var done []*muxCall
		for _, o := range m.calls {
			if o.returned && !o.oneway && !o.ctxReused {
				done = append(done, o)
			}
		}
		if len(done) > 0 {
			o := done[tp.Intn("peer", len(done))]
			respond("stale", o.opid, o.tag, jitter(), o)
		} else {
			respond("stale", c.opid, c.tag, c.timeout+5*time.Millisecond, c)
		}
	}
}

func isServiceNotAvailable(err error) bool {
	te, ok := err.(thrift.TTransportException)
	return ok && te.TypeId() == frugal.TRANSPORT_EXCEPTION_SERVICE_NOT_AVAILABLE
}

func (m *muxState) check(tr frugal.FTransport, canary *muxCall, finished bool, blockedWrites int) {
	rc := m.rc
	const allowance = time.Millisecond
	for _, c := range m.calls {
		if !c.returned {
			if c.invokeStep > 0 || c.invokeAt > 0 || c.seen {
				rc.Violate("C13", "call-never-returned", m.kind, fmt.Sprintf("call %d (plan %s, fault %s, timeout %v) did not return", c.id, c.plan, c.sendFault, c.timeout))
			}
			continue
		}
		el := c.returnAt - c.invokeAt
		stalled := m.s.AnyStall(c.invokeAt, c.returnAt)
		if stalled {
			rc.Probe("call-overlapping-a-stalled-task")
		}
		// (a synchronous callback of the application cannot be interrupted: the call returns when both the
		// deadline and the callback are over - what must not happen is that the two add up)
		if el > max(c.timeout, m.cbDelay)+allowance && !stalled {
			rc.Violate("C13", "late-return", m.kind, fmt.Sprintf("call %d returned after %v, timeout %v (err=%v)", c.id, el, c.timeout, c.err))
		}
		// was a response for this call fully readable strictly before its deadline?
		var inTime, beforeReturn bool
		for _, d := range c.deliveries {
			if d.deliveredAt >= 0 && d.deliveredAt < c.invokeAt+c.timeout {
				inTime = true
			}
			if d.deliveredAt >= 0 && d.deliveredStep <= c.returnStep {
				beforeReturn = true
			}
		}
		switch {
		case c.oneway:
			if c.err != nil && !isTimedOut(c.err) && c.sendFault == "" {
				rc.Violate("C13", "oneway-unexpected-error", m.kind, fmt.Sprintf("call %d: %v", c.id, c.err))
			}
			if isTimedOut(c.err) && el < c.timeout {
				rc.Violate("C13", "early-timeout", m.kind, fmt.Sprintf("oneway %d timed out after %v < %v", c.id, el, c.timeout))
			}
		case c.err == nil:
			f, err := DecodeBody(c.resp)
			if err != nil {
				rc.Violate("C01", "undecodable-response", m.kind, fmt.Sprintf("call %d: %v", c.id, err))
				break
			}
			if f.Headers["_opid"] != c.opid || f.Headers["tag"] != c.tag || string(f.Payload) != "resp:"+c.tag {
				rc.Violate("C01", "wrong-response", m.kind, fmt.Sprintf("call %d (opid %s tag %s) completed with frame opid=%s tag=%s payload=%q",
					c.id, c.opid, c.tag, f.Headers["_opid"], f.Headers["tag"], f.Payload))
			}
			if !beforeReturn {
				rc.Violate("C01", "response-from-nowhere", m.kind, fmt.Sprintf("call %d succeeded but no frame for it had been delivered", c.id))
			}
			// promptly: simulated time passes only when nothing can run, so a caller whose response is readable
			// returns in the same instant - unless something made it wait for somebody else's slowness
			first := time.Duration(-1)
			for _, d := range c.deliveries {
				if d.deliveredAt >= 0 && (first < 0 || d.deliveredAt < first) {
					first = d.deliveredAt
				}
			}
			if first >= 0 && c.returnAt-first > 5*time.Millisecond && !stalled && !m.s.AnyStall(first, c.returnAt) {
				rc.Violate("C06", "response-delivered-late", m.kind, fmt.Sprintf("call %d (timeout %v): its response was readable at %v, the call returned at %v", c.id, c.timeout, first, c.returnAt))
			}
		case isServiceNotAvailable(c.err):
			got := false
			for _, d := range c.deliveries503 {
				if d.deliveredAt >= 0 && d.deliveredStep <= c.returnStep {
					got = true
				}
			}
			if !got {
				rc.Violate("C01", "service-not-available-from-nowhere", m.kind, fmt.Sprintf("call %d failed with SERVICE_NOT_AVAILABLE but no 503 for its reply subject had been delivered", c.id))
			}
		case isTimedOut(c.err):
			for _, d := range c.deliveries503 {
				if d.deliveredAt >= 0 && d.deliveredAt < c.invokeAt+c.timeout {
					inTime = true
					if c.plan == "503" && !stalled {
						rc.Violate("C01", "status-503-not-routed-to-its-request", m.kind, fmt.Sprintf("call %d (op id %s): a 503 on its reply subject was delivered before its deadline, yet it timed out instead of failing with SERVICE_NOT_AVAILABLE", c.id, c.opid))
					}
				}
			}
			if el < c.timeout {
				rc.Violate("C13", "early-timeout", m.kind, fmt.Sprintf("call %d timed out after %v < %v", c.id, el, c.timeout))
			}
			if inTime && !stalled {
				key := m.kind
				if c == canary {
					key = m.kind + " canary"
				}
				rc.Violate("C06", "response-not-delivered", key, fmt.Sprintf("call %d (plan %s): its response was readable %v before the deadline, yet the call timed out", c.id, c.plan, c.timeout))
			}
		default:
			if c.sendFault == "" {
				rc.Violate("C01", "unexpected-error", m.kind, fmt.Sprintf("call %d: %v", c.id, c.err))
			}
			if c.sendFault == "" && !inTime && el >= c.timeout && !stalled {
				// nothing arrived in time and the call ended at its deadline: that is a timeout, whatever layer noticed
				rc.Violate("C13", "timeout-not-reported-as-timed-out", m.kind, fmt.Sprintf("call %d (plan %s) ended at its deadline (%v) without a response, with error %v instead of TIMED_OUT", c.id, c.plan, el, c.err))
			}
		}
		if c.err != nil && !isTimedOut(c.err) && c.sendFault == "" && c.oneway == false && c != canary {
			// covered above
		}
	}
	if n := frugal.SimRegistryLen(tr); n > 0 {
		rc.Violate("C13", "registration-left-behind", m.kind, fmt.Sprintf("%d registrations after all calls returned", n))
	} else if n < 0 {
		// nobody may still hold the registry's lock once every caller has returned and the transport is closed
		rc.Violate("C06", "registry-locked-at-end", m.kind, "the registry lock is still held after all callers returned (or never returned) and the transport was closed")
	}
	if !finished {
		rc.Violate("C13", "workload-stuck", m.kind, "callers did not all return within the simulated horizon")
	}
	if canary != nil && canary.returned && canary.err != nil && !isTimedOut(canary.err) {
		rc.Violate("C06", "canary-failed", m.kind, fmt.Sprintf("canary: %v", canary.err))
	}
	// wedged tasks: after Close every task of the system under test must be
	// gone; the only legitimate leftovers are senders parked behind an
	// injected never-returning Write/Flush (a harness site).
	var wedged []string
	for _, t := range m.s.Tasks() {
		if t.State == "dead" || t.Class == "main" {
			continue
		}
		if t.Site > 0 && (t.State == "native" || t.State == "lockwait") {
			wedged = append(wedged, t.SiteKey)
		}
	}
	sort.Strings(wedged)
	for _, w := range wedged {
		rc.Violate("C06", "wedged-task", w, "task still blocked at "+w+" after all callers returned and the transport was closed")
	}
	_ = blockedWrites
}

// ---- HTTP peer --------------------------------------------------------------------

// muxRoundTripper plays the HTTP server and net/http's Transport for the mux
// harness: it answers, stays silent, answers late, sends the headers and then
// stalls in the body, or answers with an error status. Like net/http it
// honours cancellation of the request context.
type muxRoundTripper struct{ m *muxState }

type stallBody struct {
	first []byte
	req   *http.Request
	site  int
}

func (b *stallBody) Read(p []byte) (int, error) {
	if len(b.first) > 0 {
		n := copy(p, b.first)
		b.first = b.first[n:]
		return n, nil
	}
	simrt.Recv(b.site, b.req.Context().Done())
	return 0, b.req.Context().Err()
}
func (b *stallBody) Close() error { return nil }

func (rt *muxRoundTripper) RoundTrip(req *http.Request) (*http.Response, error) {
	m := rt.m
	tp := m.rc.Tape
	site := simrt.HarnessSite("mux.http-roundtrip")
	raw, _ := io.ReadAll(req.Body)
	req.Body.Close()
	frame, _ := base64.StdEncoding.DecodeString(string(raw))
	f, err := DecodeFrame(frame)
	if err != nil {
		m.rc.Violate("C01", "request-garbled-on-the-wire", "http", err.Error())
		return nil, err
	}
	c := m.byTag[f.Headers["tag"]]
	if c == nil {
		m.rc.Violate("INFRA", "http-peer-unknown-tag", "request", f.Headers["tag"])
		return nil, fmt.Errorf("unknown tag")
	}
	if c.seen && c.plan == "connection-lost" {
		// the transport sent the same request again: this time nobody answers
		m.rc.Probe("http-request-sent-again-after-connection-loss")
		simrt.Recv(site, req.Context().Done())
		return nil, req.Context().Err()
	}
	c.seen = true
	wait := func(d time.Duration) bool { // false: the request context ended first
		if d <= 0 {
			simrt.Pre(site)
			return req.Context().Err() == nil
		}
		tm := time.NewTimer(d)
		defer tm.Stop()
		i, _, _ := simrt.Select(site, false, simrt.RecvCase(req.Context().Done()), simrt.RecvCase(tm.C))
		return i == 1
	}
	body := []byte{0, 0, 0, 0}
	if !c.oneway {
		body = EncodeFrame(map[string]string{"_opid": c.opid, "_cid": "x", "tag": c.tag}, []byte("resp:"+c.tag))
	}
	enc := base64.StdEncoding.EncodeToString(body)
	respond := func(status int, rc io.ReadCloser) *http.Response {
		return &http.Response{StatusCode: status, Status: http.StatusText(status), Proto: "HTTP/1.1", ProtoMajor: 1, ProtoMinor: 1,
			Header: http.Header{}, Body: rc, Request: req}
	}
	k := 0
	if c.plan != "canary" {
		k = tp.Pick("peer", 6, func(r *rand.Rand) int {
			x := r.IntN(100)
			switch {
			case x < 40:
				return 0
			case x < 57:
				return 1
			case x < 70:
				return 2
			case x < 82:
				return 3
			case x < 91:
				return 4
			}
			return 5
		})
	}
	switch k {
	case 0:
		if c.plan == "" {
			c.plan = "once"
		}
		if !wait(time.Duration(tp.Intn("peer", 4)) * time.Millisecond) {
			return nil, req.Context().Err()
		}
		d := &muxDelivery{kind: "answer", handedStep: m.s.Step, deliveredAt: m.s.Now(), deliveredStep: m.s.Step}
		c.deliveries = append(c.deliveries, d)
		return respond(200, io.NopCloser(bytes.NewReader([]byte(enc)))), nil
	case 1:
		c.plan = "never"
		m.rc.Fault("no-response")
		simrt.Recv(site, req.Context().Done())
		return nil, req.Context().Err()
	case 2:
		c.plan = "late"
		m.rc.Fault("late-response")
		if !wait(c.timeout + time.Duration(1+tp.Intn("peer", 50))*time.Millisecond) {
			return nil, req.Context().Err()
		}
		// (reachable when a stalled task lets the deadline and this timer become ready at once)
		c.deliveries = append(c.deliveries, &muxDelivery{kind: "late", handedStep: m.s.Step, deliveredAt: m.s.Now(), deliveredStep: m.s.Step})
		return respond(200, io.NopCloser(bytes.NewReader([]byte(enc)))), nil
	case 3:
		c.plan = "headers-then-stalled-body"
		m.rc.Fault("http-body-stalls-after-headers")
		if !wait(time.Duration(tp.Intn("peer", 4)) * time.Millisecond) {
			return nil, req.Context().Err()
		}
		return respond(200, &stallBody{first: []byte(enc[:len(enc)/2]), req: req, site: simrt.HarnessSite("mux.http-body-stalled")}), nil
	case 5:
		// the connection goes away under the request some way into the wait
		c.plan = "connection-lost"
		c.sendFault = "http-connection-lost"
		m.rc.Fault("http-connection-lost-mid-request")
		if !wait(c.timeout * time.Duration(tp.Intn("peer", 10)) / 10) {
			return nil, req.Context().Err()
		}
		return nil, []error{io.EOF, io.ErrUnexpectedEOF, &net.OpError{Op: "read", Net: "tcp", Err: syscall.ECONNRESET}, &net.OpError{Op: "write", Net: "tcp", Err: syscall.EPIPE}}[tp.Intn("peer", 4)]
	default:
		c.plan = "error-status"
		c.sendFault = "http-status"
		m.rc.Fault("http-error-status")
		if !wait(time.Duration(tp.Intn("peer", 4)) * time.Millisecond) {
			return nil, req.Context().Err()
		}
		return respond([]int{500, 503, 404}[tp.Intn("peer", 3)], io.NopCloser(bytes.NewReader([]byte("nope")))), nil
	}
}
