// Package harness holds the simulated environments, workloads and oracles of
// /verif (DESIGN.md §2.4, §3). It is compiled as a test binary against an
// instrumented scratch copy of /repo/lib/go and runs many simulated runs per
// process, one testing/synctest bubble each.
package harness

import (
	"bytes"
	"encoding/json"
	"fmt"
	"log"
	"os"
	"os/exec"
	"runtime"
	"sort"
	"strings"
	"syscall"
	"testing"
	"testing/synctest"
	"time"

	frugal "github.com/Workiva/frugal/lib/go"
	"github.com/sirupsen/logrus"
	"verif/simrt"
)

// RunCtx is what a harness function receives for one simulated run.
type RunCtx struct {
	Prop    string // property being checked (selects the fault/workload profile)
	Harness string
	Seed    uint64
	Tape    *simrt.Tape
	Sim     *simrt.Sim
	Sample  map[string]any // human-readable description of this run's configuration
	Params  map[string]string
	// DirtyPools is set by harnesses whose libraries keep sync.Pool-ed objects
	// tied to a bubble (nats.go's global timer pool): the pools are emptied by
	// two garbage collections after the run so that the next bubble cannot
	// pick up a timer of this one.
	DirtyPools bool
	// AllowStalls lets NewSim enable the stalled-task fault for this run; only
	// harnesses whose timing oracles exclude operations overlapping a stall
	// (and that do not rely on "everything has run after a settle") set it.
	AllowStalls bool
	// Nontrivial is set by the harness when the run exercised at least one
	// fault or at least two concurrently live tasks.
	Nontrivial bool
}

// Thorough reports whether the thorough tier's wider bounds apply.
func (rc *RunCtx) Thorough() bool { return rc.Params["tier"] == "thorough" }

// Scale returns quick in the quick tier and thorough in the thorough tier.
func (rc *RunCtx) Scale(quick, thorough int) int {
	if rc.Thorough() {
		return thorough
	}
	return quick
}

// Cfg draws a configuration decision.
func (rc *RunCtx) Cfg(n int) int { return rc.Tape.Intn("cfg", n) }

// Violate records a violation attributed to a property: class is stored as
// "<prop>/<class>".
func (rc *RunCtx) Violate(prop, class, key, detail string) {
	rc.Sim.Violate(prop+"/"+class, key, detail)
}

// Fault counts a fault that actually fired.
func (rc *RunCtx) Fault(kind string) { rc.Sim.Count("fault:" + kind); rc.Nontrivial = true }

// Probe counts a rare condition that was reached.
func (rc *RunCtx) Probe(name string) { rc.Sim.Count("probe:" + name) }

// NewSim creates and installs the run's simulator with a scheduling
// configuration drawn from the tape (swarm: policy, yield-site subset).
func (rc *RunCtx) NewSim(maxSteps int, horizon time.Duration) *simrt.Sim {
	cfg := simrt.Config{MaxSteps: maxSteps, Horizon: horizon}
	cfg.Policy = rc.Tape.Intn("cfg", 3)
	cfg.StickyP = []int{50, 80, 95}[rc.Tape.Intn("cfg", 3)]
	cfg.PCTDepth = 1 + rc.Tape.Intn("cfg", 3)
	cfg.SitePct = []int{100, 100, 60, 30}[rc.Tape.Intn("cfg", 4)]
	cfg.SiteSeed = uint64(rc.Tape.Intn("cfg", 1<<30))
	if rc.AllowStalls {
		cfg.StallPerMille = []int{0, 0, 0, 5, 15}[rc.Tape.Intn("cfg", 5)]
		if cfg.StallPerMille > 0 {
			rc.Sample["stall_per_mille"] = cfg.StallPerMille
		}
	}
	rc.Sample["policy"] = []string{"uniform", "sticky", "pct"}[cfg.Policy]
	rc.Sample["site_pct"] = cfg.SitePct
	s := simrt.New(rc.Tape, cfg)
	rc.Sim = s
	s.Install()
	return s
}

// HarnessFunc runs one simulated run to completion (including oracles and
// teardown). It is called inside a synctest bubble.
type HarnessFunc func(rc *RunCtx)

var harnesses = map[string]HarnessFunc{}

// Register adds a harness.
func Register(name string, f HarnessFunc) { harnesses[name] = f }

// RunResult is the outcome of one run.
type RunResult struct {
	Seed        uint64            `json:"seed"`
	Steps       int               `json:"steps"`
	SimNS       int64             `json:"sim_ns"`
	Fingerprint uint64            `json:"fingerprint"`
	Violations  []simrt.Violation `json:"violations,omitempty"`
	Counters    map[string]int    `json:"counters,omitempty"`
	TimedOut    bool              `json:"timed_out,omitempty"`
	StepLimit   bool              `json:"step_limit,omitempty"`
	Nontrivial  bool              `json:"nontrivial"`
	Sample      map[string]any    `json:"sample,omitempty"`
	Tape        map[string][]int  `json:"tape,omitempty"`
	Trace       []string          `json:"trace,omitempty"`
	Tasks       []simrt.TaskInfo  `json:"tasks,omitempty"`
	Sites       map[int]int       `json:"-"`
	Switches    map[[2]int]int    `json:"-"`
	SitesByName map[string]int    `json:"sites_by_name,omitempty"`
	SwitchList  [][2]int          `json:"switch_list,omitempty"`
	Infra       string            `json:"infra,omitempty"` // harness/infrastructure failure, never a violation
}

func init() {
	log.SetOutput(discard{})
	logrus.SetOutput(discard{})
	logrus.SetLevel(logrus.PanicLevel)
}

type discard struct{}

func (discard) Write(p []byte) (int, error) { return len(p), nil }

// RunOne executes one simulated run with the given tape.
func RunOne(t *testing.T, hname, prop string, params map[string]string, tape *simrt.Tape, keepTrace bool) (res RunResult) {
	h := harnesses[hname]
	if h == nil {
		res.Infra = "unknown harness " + hname
		return
	}
	res.Seed = tape.Seed
	var rc *RunCtx
	func() {
		defer func() {
			if r := recover(); r != nil {
				msg := fmt.Sprint(r)
				// leftover blocked goroutines at the end of a bubble are expected
				// (wedged or idle tasks of the system under test); anything else
				// is an infrastructure problem.
				if !strings.Contains(msg, "blocked goroutines remain") && !strings.Contains(msg, "deadlock") {
					res.Infra = "bubble panic: " + msg
				}
			}
		}()
		synctest.Test(t, func(t *testing.T) {
			defer func() {
				if r := recover(); r != nil {
					res.Infra = fmt.Sprintf("harness panic: %v", r)
					if rc != nil && rc.Sim != nil {
						rc.Sim.Shutdown()
						rc.Sim.Uninstall()
					}
				}
			}()
			frugal.SimResetOpIDs()
			simrt.ResetPools()
			// the order in which `range` walks a map in the code under test is a decision of the run
			switch k := tape.Intn("maporder", 4); k {
			case 0, 1:
				frugal.SimSetMapOrder(uint64(k))
			default:
				frugal.SimSetMapOrder(2 + uint64(tape.Intn("maporder", 1<<30)))
			}
			rc = &RunCtx{Prop: prop, Harness: hname, Seed: tape.Seed, Tape: tape, Sample: map[string]any{}, Params: params}
			h(rc)
			if rc.Sim != nil {
				rc.Sim.Uninstall()
			}
		})
	}()
	if rc != nil && rc.DirtyPools {
		runtime.GC()
		runtime.GC()
	}
	if rc != nil && rc.Sim != nil {
		s := rc.Sim
		res.Steps = s.Step
		res.SimNS = int64(s.End)
		res.Fingerprint = s.Fingerprint()
		res.Violations = s.Violations
		for i := range res.Violations {
			// runtime-detected classes are attributed to the property under check
			switch res.Violations[i].Class {
			case "panic":
				res.Violations[i].Class = prop + "/panic"
			case "lockset-race":
				res.Violations[i].Class = prop + "/lockset-race"
			}
		}
		if s.StepLimit {
			// every step of the budget was used: something keeps running through scheduling points without
			// ever settling (a loop that retries for ever). The budgets are far above what any workload needs
			// (no run of the unchanged tree has ever come near them, at either tier).
			top, topN := 0, 0
			for site, n := range s.SitesHit {
				if site > 0 && (n > topN || (n == topN && site < top)) {
					top, topN = site, n
				}
			}
			res.Violations = append(res.Violations, simrt.Violation{Class: prop + "/livelock", Key: simrt.SiteKey(top),
				Detail: fmt.Sprintf("the run used all %d scheduler steps without settling; the site visited most is %s (%d times)", s.Step, simrt.SiteName(top), topN)})
		}
		res.Counters = s.Counters
		res.TimedOut = s.TimedOut
		res.StepLimit = s.StepLimit
		res.Nontrivial = rc.Nontrivial
		res.Sample = rc.Sample
		res.Sites = s.SitesHit
		res.Switches = s.Switches
		if keepTrace {
			for _, te := range s.Trace {
				res.Trace = append(res.Trace, fmt.Sprintf("%d t=%s %c %s @%s", te.Step, time.Duration(te.Now), te.Kind, te.ID, simrt.SiteName(te.Site)))
			}
			res.Tasks = s.Tasks()
		}
		s.Uninstall()
	}
	res.Tape = tape.Streams()
	return
}

// ---- worker: a batch of runs ---------------------------------------------------

// FoundViolation is the first witness of one (class,key).
type FoundViolation struct {
	Class  string           `json:"class"`
	Key    string           `json:"key"`
	Detail string           `json:"detail"`
	Seed   uint64           `json:"seed"`
	Count  int              `json:"count"`
	Tape   map[string][]int `json:"tape"`
	Sample map[string]any   `json:"sample"`
	Steps  int              `json:"steps"`
}

// BatchResult is what a worker process reports.
type BatchResult struct {
	Harness      string                     `json:"harness"`
	Prop         string                     `json:"prop"`
	Runs         int                        `json:"runs"`
	Nontrivial   int                        `json:"nontrivial"`
	Steps        int64                      `json:"steps"`
	SimNS        int64                      `json:"sim_ns"`
	TimedOut     int                        `json:"timed_out"`
	StepLimit    int                        `json:"step_limit"`
	Counters     map[string]int             `json:"counters"`
	Fingerprints []uint64                   `json:"fingerprints"` // of non-trivial runs
	Found        map[string]*FoundViolation `json:"found"`
	Samples      []map[string]any           `json:"samples"`
	Sites        map[string]int             `json:"sites"`
	SwitchPairs  int                        `json:"switch_pairs"`
	SwitchKeys   []string                   `json:"switch_keys"`
	Infra        []string                   `json:"infra"`
	WallS        float64                    `json:"wall_s"`
	FirstSeed    uint64                     `json:"first_seed"`
	LastSeed     uint64                     `json:"last_seed"`
}

// RunBatch runs seeds base<<32+from .. base<<32+to-1 (or until the wall-clock
// budget is used).
func RunBatch(t *testing.T, hname, prop string, params map[string]string, base uint64, from, to int, budget time.Duration) *BatchResult {
	br := &BatchResult{Harness: hname, Prop: prop, Counters: map[string]int{}, Found: map[string]*FoundViolation{}, Sites: map[string]int{}}
	fps := map[uint64]bool{}
	sw := map[[2]int]bool{}
	start := time.Now()
	for i := from; i < to; i++ {
		if budget > 0 && time.Since(start) > budget {
			break
		}
		seed := base<<32 + uint64(i)
		var r RunResult
		if isolateArgs != nil {
			r = runIsolated(i, seed)
		} else {
			// a simulated run takes milliseconds of real time. One that is still going after HangLimit has a
			// goroutine spinning without ever reaching a scheduling point: it cannot be stopped from inside,
			// so this process gives up (exit 3) and the driver repeats the range with one killable child per run
			wd := time.AfterFunc(HangLimit, func() {
				fmt.Fprintf(os.Stderr, "RUN-HUNG seed=%d (no end after %v of real time)\n", seed, HangLimit)
				os.Exit(3)
			})
			r = RunOne(t, hname, prop, params, simrt.NewTape(seed), false)
			wd.Stop()
		}
		if br.Runs == 0 {
			br.FirstSeed = seed
		}
		br.LastSeed = seed
		br.Runs++
		br.Steps += int64(r.Steps)
		br.SimNS += r.SimNS
		if r.Infra != "" {
			if len(br.Infra) < 5 {
				br.Infra = append(br.Infra, fmt.Sprintf("seed %d: %s", seed, r.Infra))
			}
			continue
		}
		if r.TimedOut {
			br.TimedOut++
		}
		if r.StepLimit {
			br.StepLimit++
		}
		if r.Nontrivial {
			br.Nontrivial++
			fps[r.Fingerprint] = true
		}
		for k, v := range r.Counters {
			br.Counters[k] += v
		}
		for k, v := range r.Sites {
			br.Sites[simrt.SiteName(k)] += v
		}
		for k, v := range r.SitesByName {
			br.Sites[k] += v
		}
		for k := range r.Switches {
			sw[k] = true
		}
		for _, k := range r.SwitchList {
			sw[k] = true
		}
		if len(br.Samples) < 3 && r.Nontrivial {
			sm := r.Sample
			if sm == nil {
				sm = map[string]any{} // (a run that died in a child process reports no sample)
			}
			sm["seed"] = seed
			sm["steps"] = r.Steps
			br.Samples = append(br.Samples, sm)
		}
		for _, v := range r.Violations {
			k := v.Class + "|" + v.Key
			n := 0
			if f := br.Found[k]; f != nil {
				f.Count++
				// prefer the shortest failing run as the witness to minimise
				if r.Steps >= f.Steps {
					continue
				}
				n = f.Count - 1
			}
			br.Found[k] = &FoundViolation{Class: v.Class, Key: v.Key, Detail: v.Detail, Seed: seed, Count: n + 1, Tape: r.Tape, Sample: r.Sample, Steps: r.Steps}
		}
	}
	for fp := range fps {
		br.Fingerprints = append(br.Fingerprints, fp)
	}
	sort.Slice(br.Fingerprints, func(i, j int) bool { return br.Fingerprints[i] < br.Fingerprints[j] })
	br.SwitchPairs = len(sw)
	for k := range sw {
		br.SwitchKeys = append(br.SwitchKeys, fmt.Sprintf("%d>%d", k[0], k[1]))
	}
	sort.Strings(br.SwitchKeys)
	br.WallS = time.Since(start).Seconds()
	return br
}

// ---- replay files ------------------------------------------------------------------

// ReplayFile is the on-disk format of a violation witness.
type ReplayFile struct {
	Property  string            `json:"property"`
	Harness   string            `json:"harness"`
	Params    map[string]string `json:"params,omitempty"`
	Class     string            `json:"class"`
	Key       string            `json:"key"`
	Seed      uint64            `json:"seed"`
	Tape      map[string][]int  `json:"tape"`
	Detail    string            `json:"detail,omitempty"`
	Sample    map[string]any    `json:"sample,omitempty"`
	Trace     []string          `json:"trace,omitempty"`
	Tasks     []simrt.TaskInfo  `json:"tasks,omitempty"`
	TreeRev   string            `json:"tree_rev,omitempty"`
	Minimised bool              `json:"minimised"`
	Reruns    int               `json:"minimise_reruns,omitempty"`
}

// LoadReplay reads a replay file.
func LoadReplay(path string) (*ReplayFile, error) {
	b, err := os.ReadFile(path)
	if err != nil {
		return nil, err
	}
	rf := &ReplayFile{}
	return rf, json.Unmarshal(b, rf)
}

func hasViolation(r RunResult, class, key string) *simrt.Violation {
	for i, v := range r.Violations {
		if v.Class == class && v.Key == key {
			return &r.Violations[i]
		}
	}
	return nil
}

// Replay runs the tape of a replay file and reports whether the same
// violation (class and key) recurs.
func Replay(t *testing.T, rf *ReplayFile, keepTrace bool) (bool, RunResult) {
	if len(rf.Tape) == 0 {
		// witness identified by its seed only (a run that crashed the process
		// leaves no recorded tape): re-run it in a child process
		ps := ""
		for k, v := range rf.Params {
			if ps != "" {
				ps += ","
			}
			ps += k + "=" + v
		}
		isolateArgs = []string{"-harness", rf.Harness, "-prop", rf.Property, "-base", fmt.Sprint(rf.Seed >> 32), "-params", ps}
		r := runIsolated(int(rf.Seed&0xffffffff), rf.Seed)
		isolateArgs = nil
		return hasViolation(r, rf.Class, rf.Key) != nil, r
	}
	tape := simrt.NewReplayTape(rf.Seed, rf.Tape)
	r := RunOne(t, rf.Harness, rf.Property, rf.Params, tape, keepTrace)
	return hasViolation(r, rf.Class, rf.Key) != nil, r
}

func tapeSize(tp map[string][]int) (n int, nz int, sum int) {
	for _, s := range tp {
		n += len(s)
		for _, v := range s {
			if v != 0 {
				nz++
				sum += v
			}
		}
	}
	return
}

func cloneTape(tp map[string][]int) map[string][]int {
	out := map[string][]int{}
	for k, v := range tp {
		out[k] = append([]int(nil), v...)
	}
	return out
}

// Minimise shrinks the tape of rf while the same (class,key) recurs:
// truncate streams, delete chunks, zero entries, lower values. The workload
// streams come first so that fewer callers / faults are preferred, then the
// schedule (fewer context switches).
func Minimise(t *testing.T, rf *ReplayFile, maxReruns int) *ReplayFile {
	if len(rf.Tape) == 0 {
		out := *rf
		return &out
	}
	best := cloneTape(rf.Tape)
	reruns := 0
	started := time.Now()
	try := func(tp map[string][]int) bool {
		if reruns >= maxReruns || time.Since(started) > MinimiseBudget {
			return false
		}
		reruns++
		var r RunResult
		if IsolateReplays {
			c := *rf
			c.Tape = tp
			c.Trace, c.Tasks = nil, nil
			ok, tape := replayInChild(&c)
			if !ok {
				return false
			}
			r.Tape = tape
			r.Violations = []simrt.Violation{{Class: rf.Class, Key: rf.Key}}
		} else {
			tape := simrt.NewReplayTape(rf.Seed, tp)
			r = RunOne(t, rf.Harness, rf.Property, rf.Params, tape, false)
		}
		if hasViolation(r, rf.Class, rf.Key) != nil {
			// keep what the run actually consumed (drops unused tails)
			best = r.Tape
			return true
		}
		return false
	}
	// normalise first: replay once so that best is what a replay consumes
	try(best)
	names := func() []string {
		var ns []string
		for k := range best {
			ns = append(ns, k)
		}
		sort.Slice(ns, func(i, j int) bool {
			// cfg first, then others alphabetically, schedule-like streams last
			rank := func(s string) int {
				switch s {
				case "cfg":
					return 0
				case "sched":
					return 8
				case "sel":
					return 9
				}
				return 5
			}
			if rank(ns[i]) != rank(ns[j]) {
				return rank(ns[i]) < rank(ns[j])
			}
			return ns[i] < ns[j]
		})
		return ns
	}
	improved := true
	for pass := 0; improved && pass < 6 && reruns < maxReruns; pass++ {
		improved = false
		for _, name := range names() {
			// 1. zero whole chunks (halving)
			for chunk := len(best[name]); chunk >= 1; chunk /= 2 {
				for off := 0; off < len(best[name]); off += chunk {
					s := best[name]
					end := off + chunk
					if end > len(s) {
						end = len(s)
					}
					allZero := true
					for _, v := range s[off:end] {
						if v != 0 {
							allZero = false
						}
					}
					if allZero {
						continue
					}
					c := cloneTape(best)
					for i := off; i < end; i++ {
						c[name][i] = 0
					}
					if try(c) {
						improved = true
					}
				}
				if chunk == 1 {
					break
				}
			}
			// 2. delete chunks (shifts the rest; sometimes much shorter)
			for chunk := len(best[name]) / 2; chunk >= 1; chunk /= 2 {
				for off := 0; off+chunk <= len(best[name]); {
					c := cloneTape(best)
					c[name] = append(append([]int(nil), c[name][:off]...), c[name][off+chunk:]...)
					if try(c) {
						improved = true
					} else {
						off += chunk
					}
				}
			}
			// 3. lower individual values
			for i := 0; i < len(best[name]); i++ {
				for i < len(best[name]) && best[name][i] > 0 {
					c := cloneTape(best)
					c[name][i] = best[name][i] / 2
					if !try(c) {
						c2 := cloneTape(best)
						c2[name][i] = best[name][i] - 1
						if c2[name][i] == c[name][i] || !try(c2) {
							break
						}
					}
					improved = true
				}
			}
		}
	}
	out := *rf
	out.Tape = best
	out.Minimised = true
	out.Reruns = reruns
	// final replay with trace for the human-readable schedule
	if IsolateReplays {
		return &out
	}
	ok, r := Replay(t, &out, true)
	if ok {
		out.Trace = r.Trace
		out.Tasks = r.Tasks
		out.Sample = r.Sample
		if v := hasViolation(r, rf.Class, rf.Key); v != nil {
			out.Detail = v.Detail
		}
	}
	return &out
}

// WriteJSON writes v to path.
func WriteJSON(path string, v any) error {
	b, err := json.MarshalIndent(v, "", " ")
	if err != nil {
		return err
	}
	return os.WriteFile(path, b, 0o644)
}

func newTape(seed uint64) *simrt.Tape { return simrt.NewTape(seed) }

func siteName(k int) string { return simrt.SiteName(k) }

// isolateArgs, when set, makes RunBatch execute every run in a child process
// of this binary. It is the fallback for code under test that keeps
// process-global state across runs (e.g. a package-level sync.Pool of
// channels, which synctest refuses to share between bubbles), and it turns a
// crash of the whole process into a recorded violation instead of a dead
// worker.
var isolateArgs []string

// HangLimit is the real time after which a single simulated run counts as hung.
var HangLimit = 30 * time.Second

func runIsolated(index int, seed uint64) RunResult {
	out, err := os.CreateTemp("", "verif-single-*.json")
	if err != nil {
		return RunResult{Seed: seed, Infra: err.Error()}
	}
	out.Close()
	defer os.Remove(out.Name())
	args := append([]string{"-test.run", "^TestWorker$", "-test.timeout", "0", "-single", "-from", fmt.Sprint(index), "-out", out.Name()}, isolateArgs...)
	cmd := exec.Command(os.Args[0], args...)
	var buf bytes.Buffer
	cmd.Stdout, cmd.Stderr = &buf, &buf
	if err = cmd.Start(); err != nil {
		return RunResult{Seed: seed, Infra: err.Error()}
	}
	done := make(chan error, 1)
	go func() { done <- cmd.Wait() }()
	hung := false
	select {
	case err = <-done:
	case <-time.After(HangLimit + 10*time.Second):
		// ask the runtime for a goroutine dump (SIGQUIT), then make sure the child is gone
		hung = true
		cmd.Process.Signal(syscall.SIGQUIT)
		select {
		case err = <-done:
		case <-time.After(5 * time.Second):
			cmd.Process.Kill()
			err = <-done
		}
	}
	b := buf.Bytes()
	if hung {
		prop := "C05"
		for i, a := range isolateArgs {
			if a == "-prop" && i+1 < len(isolateArgs) {
				prop = isolateArgs[i+1]
			}
		}
		// the spinning goroutine: running or runnable, inside the library under test
		key, msg := "unknown", string(b)
		for _, g := range strings.Split(msg, "\n\n") {
			if !(strings.Contains(g, "[running") || strings.Contains(g, "[runnable")) {
				continue
			}
			for _, l := range strings.Split(g, "\n") {
				if strings.HasPrefix(l, "github.com/Workiva/frugal/lib/go.") {
					key = strings.SplitN(strings.TrimPrefix(l, "github.com/Workiva/frugal/lib/go."), "(0x", 2)[0]
					key = strings.TrimSuffix(key, "(...)")
					break
				}
			}
			if key != "unknown" {
				break
			}
		}
		if len(msg) > 6000 {
			msg = msg[:6000]
		}
		return RunResult{Seed: seed, Nontrivial: true, Violations: []simrt.Violation{{Class: prop + "/livelock", Key: key,
			Detail: fmt.Sprintf("the run did not end within %v of real time (a simulated run takes milliseconds): a goroutine of the system under test spins without reaching a scheduling point - %s\n%s", HangLimit+10*time.Second, key, msg)}}}
	}
	var r RunResult
	if data, e2 := os.ReadFile(out.Name()); e2 == nil && len(data) > 2 && err == nil {
		if e3 := json.Unmarshal(data, &r); e3 == nil {
			return r
		}
	}
	// the child died: a crash of the process under simulation, charged to the property whose workload ran
	prop := "C05"
	for i, a := range isolateArgs {
		if a == "-prop" && i+1 < len(isolateArgs) {
			prop = isolateArgs[i+1]
		}
	}
	r.Seed = seed
	r.Nontrivial = true
	msg := string(b)
	key := "unknown"
	for _, l := range strings.Split(msg, "\n") {
		if strings.HasPrefix(l, "fatal error:") || strings.HasPrefix(l, "panic:") {
			key = l
			if len(key) > 120 {
				key = key[:120]
			}
			break
		}
	}
	if len(msg) > 6000 {
		msg = msg[:6000]
	}
	r.Violations = []simrt.Violation{{Class: prop + "/process-crash", Key: key, Detail: msg}}
	r.Tape = nil
	return r
}

// MinimiseBudget bounds the wall-clock time of one minimisation.
var MinimiseBudget = 40 * time.Second

// IsolateReplays makes the minimiser run every candidate tape in a child
// process (same reason as isolateArgs).
var IsolateReplays bool

func replayInChild(rf *ReplayFile) (bool, map[string][]int) {
	in, err := os.CreateTemp("", "verif-cand-*.json")
	if err != nil {
		return false, nil
	}
	in.Close()
	defer os.Remove(in.Name())
	outp := in.Name() + ".out"
	defer os.Remove(outp)
	if WriteJSON(in.Name(), rf) != nil {
		return false, nil
	}
	cmd := exec.Command(os.Args[0], "-test.run", "^TestWorker$", "-test.timeout", "0", "-replay", in.Name(), "-out", outp)
	if err := cmd.Run(); err != nil {
		return false, nil
	}
	data, err := os.ReadFile(outp)
	if err != nil {
		return false, nil
	}
	var res struct {
		Reproduced bool             `json:"reproduced"`
		Tape       map[string][]int `json:"tape"`
	}
	if json.Unmarshal(data, &res) != nil {
		return false, nil
	}
	return res.Reproduced, res.Tape
}
