package harness

import (
	"encoding/binary"
	"errors"
	"fmt"
	"sort"
)

// Independent implementation of the frugal v0 frame layout
// (documentation/protocol.md): oracles never trust frugal's own codec.
//
//	frame   := size:u32be  body
//	body    := version:u8(0)  hsize:u32be  pairs  payload
//	pairs   := { nlen:u32be name vlen:u32be value }

// Frame is a decoded frugal frame.
type Frame struct {
	Headers map[string]string
	Payload []byte
}

// EncodeBody encodes headers+payload without the leading frame size. Header
// order is sorted (any order is legal on the wire).
func EncodeBody(h map[string]string, payload []byte) []byte {
	keys := make([]string, 0, len(h))
	for k := range h {
		keys = append(keys, k)
	}
	sort.Strings(keys)
	hs := 0
	for _, k := range keys {
		hs += 8 + len(k) + len(h[k])
	}
	out := make([]byte, 0, 5+hs+len(payload))
	out = append(out, 0)
	out = binary.BigEndian.AppendUint32(out, uint32(hs))
	for _, k := range keys {
		out = binary.BigEndian.AppendUint32(out, uint32(len(k)))
		out = append(out, k...)
		out = binary.BigEndian.AppendUint32(out, uint32(len(h[k])))
		out = append(out, h[k]...)
	}
	return append(out, payload...)
}

// EncodeFrame encodes a complete frame including the 4-byte size prefix.
func EncodeFrame(h map[string]string, payload []byte) []byte {
	b := EncodeBody(h, payload)
	out := binary.BigEndian.AppendUint32(make([]byte, 0, 4+len(b)), uint32(len(b)))
	return append(out, b...)
}

// DecodeBody decodes a frame body (no size prefix).
func DecodeBody(b []byte) (*Frame, error) {
	if len(b) < 5 {
		return nil, fmt.Errorf("body too short (%d)", len(b))
	}
	if b[0] != 0 {
		return nil, fmt.Errorf("version %d", b[0])
	}
	hs := int(binary.BigEndian.Uint32(b[1:5]))
	if hs < 0 || 5+hs > len(b) {
		return nil, fmt.Errorf("header size %d exceeds body %d", hs, len(b))
	}
	f := &Frame{Headers: map[string]string{}}
	p := b[5 : 5+hs]
	for len(p) > 0 {
		if len(p) < 4 {
			return nil, errors.New("truncated name length")
		}
		n := int(binary.BigEndian.Uint32(p))
		p = p[4:]
		if n < 0 || n > len(p) {
			return nil, errors.New("bad name length")
		}
		name := string(p[:n])
		p = p[n:]
		if len(p) < 4 {
			return nil, errors.New("truncated value length")
		}
		n = int(binary.BigEndian.Uint32(p))
		p = p[4:]
		if n < 0 || n > len(p) {
			return nil, errors.New("bad value length")
		}
		f.Headers[name] = string(p[:n])
		p = p[n:]
	}
	f.Payload = b[5+hs:]
	return f, nil
}

// DecodeFrame decodes a complete frame with size prefix and checks the size.
func DecodeFrame(b []byte) (*Frame, error) {
	if len(b) < 4 {
		return nil, errors.New("no size prefix")
	}
	n := int(binary.BigEndian.Uint32(b))
	if n != len(b)-4 {
		return nil, fmt.Errorf("size prefix %d but %d bytes follow", n, len(b)-4)
	}
	return DecodeBody(b[4:])
}

// SplitFrames cuts a byte stream into complete frames (with prefix) and the
// unconsumed remainder.
func SplitFrames(b []byte) (frames [][]byte, rest []byte) {
	for len(b) >= 4 {
		n := int(binary.BigEndian.Uint32(b))
		if n < 0 || len(b) < 4+n {
			break
		}
		frames = append(frames, b[:4+n])
		b = b[4+n:]
	}
	return frames, b
}
