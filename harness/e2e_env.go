package harness

import (
	"bytes"
	"context"
	"encoding/base64"
	"errors"
	"fmt"
	"io"
	"net"
	"net/http"
	"net/http/httptest"
	"reflect"
	"sort"
	"strings"
	"syscall"
	"time"

	frugal "github.com/Workiva/frugal/lib/go"
	"github.com/apache/thrift/lib/go/thrift"
	"github.com/nats-io/nats.go"
	"verif/harness/gen/simbase"
	"verif/harness/gen/simsvc"
	"verif/simrt"
)

// Shared environment of the e2e / server / corrupt harnesses: the real
// generated client and processor (from /verif/idl, compiled by the tree's
// compiler) over each real transport/server pair, with the network stubbed.

type wireFrame struct {
	dir   string // "req" (client->server) or "rep"
	conn  int
	step  int
	at    time.Duration
	raw   []byte // complete frame with size prefix (may be empty for an empty HTTP reply)
	frame *Frame
}

type callPlan struct {
	shapedReqHdr map[string]string // C12: request headers added by the size shaping
	bulk         int               // C12: where the bulk of a shaped reply sits (0,1: result; 2: response header; 3: half in the cid)
	reuse        *callPlan         // use the FContext of this earlier call of the same caller again
	ctx          frugal.FContext
	sameCtx      []*callPlan // every plan that went out on this plan's FContext object (itself included)
	id           int
	tag          string
	method       string
	args         []any
	outcome      string // ok | ex1 | ex2 | undeclared | appex
	appType      int32
	msg          string
	ret          any
	oneway       bool
	reqHdr       map[string]string
	cid          string
	timeout      time.Duration
	respHdr      map[string]string
	dur          time.Duration
	// observed on the server
	handlerRuns int
	seenArgs    []any
	seenHdr     map[string]string
	seenCid     string
	seenTimeout time.Duration
	seenOpid    string
	// observed by the caller
	opid                                                 string
	gotRet                                               any
	gotErr                                               error
	gotRespHdr                                           map[string]string
	returned                                             bool
	invokeStep, returnStep                               int
	invokeAt, returnAt                                   time.Duration
	mw                                                   []string // client-side middleware trace
	mwSrv                                                []string // processor-side middleware trace
	mwSaw                                                []string // per middleware (innermost first): the result it saw coming back
	via2                                                 bool     // issued through the second client
	errBulk                                              bool     // C12: the oversize reply is an undeclared error with a long text
	connLost                                             bool     // HTTP: the connection was lost after the server had processed the request
	onwardWrapped                                        bool     // ... through a decorated view of that context (a type embedding frugal.FContext)
	onward                                               bool     // the handler makes an onward call with the context it was given, between setting response headers
	onwardErr                                            error
	onwardRet                                            int32
	downCid, downOpid, downTag                           string
	staleRespKey                                         string // a response header name already present (with an old value) on the caller\'s context
	shape                                                func(hdr map[string]string)
	expectReqTooLarge, expectRespTooLarge, sizeAmbiguous bool
	sizeInfo                                             string
}

type e2eEnv struct {
	otherEndpoint   func() // C12/http: a few calls through a second transport built later from the same builder
	garbageExpected bool   // requests with damaged headers are part of the workload
	rc              *RunCtx
	s               *simrt.Sim
	kind            string // adapter | http | nats
	proto           string // binary | compact | json
	pf              *frugal.FProtocolFactory
	tr              frugal.FTransport
	client          *simsvc.FLeafClient
	client2         *simsvc.FLeafClient
	downCli         *simsvc.FLeafClient // a downstream service for onward calls of handlers
	prov2Spec       []mwSpec
	proc            frugal.FProcessor
	plans           map[string]*callPlan
	wire            []wireFrame
	// per transport
	lst                         *simListener
	srv                         frugal.FServer
	b                           *SimBroker
	cliConn, srvConn            *nats.Conn
	streams                     []*SimStream
	httpReqLimit, httpRespLimit uint
	httpLatency                 func() time.Duration
	natsWorkers                 int
	serveDone                   chan struct{}
	handlerHook                 func(p *callPlan, fctx frugal.FContext)
	connN                       int
	rawHTTP                     http.HandlerFunc
}

func protoFactory(name string) thrift.TProtocolFactory {
	switch name {
	case "compact":
		return thrift.NewTCompactProtocolFactoryConf(nil)
	case "json":
		return thrift.NewTJSONProtocolFactory()
	}
	return thrift.NewTBinaryProtocolFactoryConf(nil)
}

// ---- listener for FSimpleServer ------------------------------------------------

type simListener struct {
	acceptC   chan thrift.TTransport
	interrupt chan struct{}
	site      int
}

func newSimListener() *simListener {
	return &simListener{acceptC: make(chan thrift.TTransport, 16), interrupt: make(chan struct{}), site: simrt.HarnessSite("listener.Accept")}
}
func (l *simListener) Listen() error { return nil }
func (l *simListener) Close() error  { return nil }
func (l *simListener) Interrupt() error {
	select {
	case <-l.interrupt:
	default:
		close(l.interrupt)
	}
	return nil
}
func (l *simListener) Accept() (thrift.TTransport, error) {
	i, rv, _ := simrt.Select(l.site, false, simrt.RecvCase(l.acceptC), simrt.RecvCase(l.interrupt))
	if i == 0 {
		return rv.Interface().(thrift.TTransport), nil
	}
	return nil, errors.New("listener interrupted")
}

// ---- HTTP round tripper ---------------------------------------------------------

type simRoundTripper struct{ env *e2eEnv }

func decodeB64Frame(b []byte) []byte {
	d, err := base64.StdEncoding.DecodeString(string(b))
	if err != nil {
		return nil
	}
	return d
}

func (rt *simRoundTripper) RoundTrip(req *http.Request) (*http.Response, error) {
	env := rt.env
	body, _ := io.ReadAll(req.Body)
	req.Body.Close()
	env.connN++
	conn := env.connN
	env.capture("req", conn, decodeB64Frame(body))
	done := make(chan *http.Response, 1)
	site := simrt.HarnessSite("http.roundtrip")
	var lat time.Duration
	if env.httpLatency != nil {
		lat = env.httpLatency()
	}
	env.s.Go("http-server", func() {
		if lat > 0 {
			simrt.Block(site)
			time.Sleep(lat)
			simrt.Yield(site)
		}
		r2 := req.Clone(context.Background())
		r2.Body = io.NopCloser(bytes.NewReader(body))
		r2.ContentLength = int64(len(body))
		rec := httptest.NewRecorder()
		env.rawHTTP(rec, r2)
		resp := rec.Result()
		if resp.StatusCode == 200 {
			rb, _ := io.ReadAll(resp.Body)
			resp.Body = io.NopCloser(bytes.NewReader(rb))
			env.capture("rep", conn, decodeB64Frame(rb))
		}
		simrt.Send(site, done, resp)
	})
	i, rv, _ := simrt.Select(site, false, simrt.RecvCase(done), simrt.RecvCase(req.Context().Done()))
	if i == 0 {
		resp := rv.Interface().(*http.Response)
		resp.Request = req
		if resp.StatusCode == http.StatusRequestEntityTooLarge && env.rc.Prop == "C12" && env.rc.Tape.Intn("cut413", 3) == 1 {
			// the status line and headers of the 413 arrived; the connection dies inside its (irrelevant) body.
			// What the caller has to hear is still that the response was too large.
			env.rc.Fault("http-413-whose-body-is-cut-short")
			rb, _ := io.ReadAll(resp.Body)
			resp.Body = io.NopCloser(io.MultiReader(bytes.NewReader(rb[:len(rb)/2]), failingReader{}))
		}
		if f, err := DecodeFrame(decodeB64Frame(body)); err == nil && env.rc.Prop == "C03" {
			if p := env.plans[f.Headers["tag"]]; p != nil && !p.connLost && env.rc.Tape.Intn("httplost", 8) == 1 {
				// the server has processed the request; the connection goes away before a byte of the response
				// reaches the client. The caller must hear of it - and the request must not be sent again on its behalf.
				p.connLost = true
				env.rc.Fault("http-connection-lost-after-the-server-processed-the-request")
				return nil, []error{io.EOF, io.ErrUnexpectedEOF, errors.New("http: server closed idle connection"),
					&net.OpError{Op: "read", Net: "tcp", Err: syscall.ECONNRESET}, &net.OpError{Op: "write", Net: "tcp", Err: syscall.EPIPE}}[env.rc.Tape.Intn("httplost", 5)]
			}
		}
		return resp, nil
	}
	return nil, req.Context().Err()
}

func (env *e2eEnv) capture(dir string, conn int, raw []byte) {
	wf := wireFrame{dir: dir, conn: conn, step: env.s.Step, at: env.s.Now(), raw: append([]byte(nil), raw...)}
	if len(raw) > 4 {
		if f, err := DecodeFrame(raw); err == nil {
			wf.frame = f
		}
	}
	env.wire = append(env.wire, wf)
}

// ---- environment construction (runs on a simulation task) ------------------------

// newAdapterConn creates a linked client/server stream pair and hands the
// server end to the listener.
func (env *e2eEnv) newAdapterConn() *SimStream {
	env.connN++
	conn := env.connN
	cst := NewSimStream(env.rc, fmt.Sprintf("cli%d", conn))
	sst := NewSimStream(env.rc, fmt.Sprintf("srv%d", conn))
	cst.OnFrame = func(f []byte) { env.capture("req", conn, f); sst.PeerWrite(f) }
	sst.OnFrame = func(f []byte) { env.capture("rep", conn, f); cst.PeerWrite(f) }
	cst.OnClose = func(int) { sst.PeerEnd(nil) }
	sst.OnClose = func(int) { cst.PeerEnd(nil) }
	cst.OnOpen = func(int) {
		if sst.IsOpen() {
			// the client connects again: a new connection on the server side too. (FSimpleServer does not close a
			// client transport whose connection ended, so the old one may still count as open here.)
			oc := sst.OnClose
			sst.OnClose = nil
			sst.Close()
			sst.OnClose = oc
		}
		sst.Open()
		simrt.Send(env.lst.site, env.lst.acceptC, thrift.TTransport(sst))
	}
	env.streams = append(env.streams, cst, sst)
	return cst
}

func (env *e2eEnv) start(procMW []frugal.ServiceMiddleware, provMW []frugal.ServiceMiddleware, cliMW []frugal.ServiceMiddleware) error {
	env.pf = frugal.NewFProtocolFactory(protoFactory(env.proto))
	env.plans = map[string]*callPlan{}
	h := &simHandler{env: env}
	env.proc = simsvc.NewFLeafProcessor(h, procMW...)
	switch env.kind {
	case "adapter":
		env.lst = newSimListener()
		srv := frugal.NewFSimpleServer(env.proc, env.lst, env.pf)
		env.srv = srv
		env.serveDone = make(chan struct{}, 1)
		env.s.Go("serve", func() {
			srv.Serve()
			simrt.Send(simrt.HarnessSite("serve-done"), env.serveDone, struct{}{})
		})
		env.tr = frugal.NewAdapterTransport(env.newAdapterConn())
	case "http":
		env.rawHTTP = frugal.NewFrugalHandlerFunc(env.proc, env.pf)
		hc := &http.Client{Transport: &simRoundTripper{env: env}}
		bld := frugal.NewFHTTPTransportBuilder(hc, "http://sim/frugal")
		if env.httpReqLimit > 0 {
			bld = bld.WithRequestSizeLimit(env.httpReqLimit)
		}
		if env.httpRespLimit > 0 {
			bld = bld.WithResponseSizeLimit(env.httpRespLimit)
		}
		env.tr = bld.Build()
		// the application goes on to configure the same builder for another endpoint with other limits: a
		// transport that has been built keeps the limits it was built with
		other := bld.WithRequestSizeLimit(1 << 20).WithResponseSizeLimit(0).Build()
		if env.rc.Prop == "C12" {
			// ... and uses that other transport now and then: a second client with other limits in the same process
			other.Open()
			oc := simsvc.NewFLeafClient(frugal.NewFServiceProvider(other, env.pf))
			n := 0
			env.otherEndpoint = func() {
				for i := 0; i < 2; i++ {
					n++
					p := &callPlan{id: 9000 + n, tag: fmt.Sprintf("other-endpoint-%d", n), method: "add", args: []any{int32(n), int32(1)}, outcome: "ok", ret: int32(n + 1), reqHdr: map[string]string{}, respHdr: map[string]string{}}
					env.plans[p.tag] = p
					ctx := frugal.NewFContext("other")
					ctx.AddRequestHeader("tag", p.tag)
					ctx.AddRequestHeader("pad", strings.Repeat("p", 3000))
					if r, err := oc.Add(ctx, int32(n), 1); err != nil || r != int32(n+1) {
						env.rc.Violate("C12", "in-limit-message-rejected", "http other endpoint", fmt.Sprintf("add(%d,1) with a 3000-byte header through a second transport (request limit 1 MiB, no response limit): %v %v", n, r, err))
					}
				}
			}
			env.rc.Fault("second-client-with-other-limits-in-the-process")
		}
	case "nats":
		env.b = NewSimBroker(env.rc)
		env.b.OnPublish = func(c *BrokerConn, subject, reply string, hdr, data []byte) bool {
			if subject == "svc" {
				env.capture("req", c.ID, data)
			} else if strings.HasPrefix(subject, "_INBOX.cli.") {
				env.capture("rep", c.ID, data)
			}
			return false
		}
		var err error
		early := env.rc.Tape.Intn("earlybuild", 5) == 4
		if early {
			// the service starts before NATS is reachable (nats.RetryOnFailedConnect): its server is built on a
			// connection that is not established yet, and serves once it is
			env.rc.Fault("nats-server-built-before-the-broker-is-reachable")
			env.b.GoDown()
			saved := env.b.ConnOptions
			env.b.ConnOptions = append(saved[:len(saved):len(saved)], nats.RetryOnFailedConnect(true), func(o *nats.Options) error {
				o.AllowReconnect, o.MaxReconnect, o.ReconnectWait, o.NoRandomize = true, -1, 20*time.Millisecond, true
				o.ReconnectJitter, o.ReconnectJitterTLS = 0, 0
				return nil
			})
			env.srvConn, err = env.b.Connect("server")
			env.b.ConnOptions = saved
			if err != nil {
				return err
			}
		} else if env.srvConn, err = env.b.Connect("server"); err != nil {
			return err
		}
		w := env.natsWorkers
		if w == 0 {
			w = 1
		}
		nb := frugal.NewFNatsServerBuilder(env.srvConn, env.proc, env.pf, []string{"svc"}).WithWorkerCount(uint(w))
		if env.rc.Tape.Intn("hooks", 2) == 1 {
			// application-supplied event hooks instead of the built-in ones (which time-stamp each request)
			nb = nb.WithRequestReceivedEventHandler(func(map[interface{}]interface{}) {}).
				WithRequestStartedEventHandler(func(map[interface{}]interface{}) {}).
				WithRequestFinishedEventHandler(func(map[interface{}]interface{}) {})
		}
		srv := nb.Build()
		env.srv = srv
		if early {
			env.b.ComeBack()
			settle(200 * time.Millisecond)
		}
		if env.cliConn, err = env.b.Connect("client"); err != nil {
			return err
		}
		env.serveDone = make(chan struct{}, 1)
		env.s.Go("serve", func() {
			srv.Serve()
			simrt.Send(simrt.HarnessSite("serve-done"), env.serveDone, struct{}{})
		})
		site := simrt.HarnessSite("e2e.wait-sub")
		for i := 0; env.b.SubCount("svc") == 0 && i < 1000; i++ {
			simrt.Block(site)
			time.Sleep(time.Millisecond)
			simrt.Yield(site)
		}
		env.tr = frugal.NewFNatsTransport(env.cliConn, "svc", "_INBOX.cli")
	}
	if err := env.tr.Open(); err != nil {
		return err
	}
	prov := frugal.NewFServiceProvider(env.tr, env.pf, provMW...)
	if len(provMW) > 0 && env.rc.Tape.Intn("mwpeek", 4) == 3 {
		// somebody looks at the provider's middleware and fiddles with the list it was handed (GetMiddleware hands
		// out a copy): clients made from the provider afterwards still run what the provider was given
		env.rc.Fault("list-returned-by-GetMiddleware-edited-by-its-caller")
		got := prov.GetMiddleware()
		for i := range got {
			got[i] = func(next frugal.InvocationHandler) frugal.InvocationHandler {
				return func(service reflect.Value, method reflect.Method, args frugal.Arguments) frugal.Results {
					env.rc.Violate("C16", "middleware-nobody-supplied-was-run", "client", "a middleware written into the slice returned by FServiceProvider.GetMiddleware() runs for calls of a client made from that provider")
					return next(service, method, args)
				}
			}
		}
	}
	env.client = simsvc.NewFLeafClient(prov, cliMW...)
	return nil
}

func (env *e2eEnv) shutdown() {
	env.tr.Close()
	if env.srv != nil {
		env.srv.Stop()
		simrt.Recv(simrt.HarnessSite("serve-done"), env.serveDone)
	}
}

func (env *e2eEnv) kill() {
	for _, st := range env.streams {
		st.Kill()
	}
	if env.b != nil {
		env.b.Kill()
	}
}

func (env *e2eEnv) quiet() bool { return env.b == nil || env.b.Pending() == 0 }

// ---- downstream service (onward calls) ---------------------------------------------

type downHandler struct {
	simsvc.FLeaf
	env *e2eEnv
}

func (d *downHandler) Add(fctx frugal.FContext, a, b int32) (int32, error) {
	tag, _ := fctx.RequestHeader("tag")
	if p := d.env.plans[tag]; p != nil {
		p.downTag = tag
		p.downCid = fctx.CorrelationID()
		p.downOpid, _ = fctx.RequestHeader("_opid")
	}
	fctx.AddResponseHeader("zdown-r", "set-by-the-downstream-service")
	return a + b, nil
}

// tracedContext is what applications write to decorate a context: it embeds the interface and adds to it.
type tracedContext struct {
	frugal.FContext
	spans int
}

func (t *tracedContext) Span() int { t.spans++; return t.spans }

type rtFunc func(*http.Request) (*http.Response, error)

func (f rtFunc) RoundTrip(r *http.Request) (*http.Response, error) { return f(r) }

// down returns a client of a second service in the same process, reached over frugal's HTTP transport with a
// synchronous in-memory round trip.
func (env *e2eEnv) down() *simsvc.FLeafClient {
	if env.downCli == nil {
		hf := frugal.NewFrugalHandlerFunc(simsvc.NewFLeafProcessor(&downHandler{env: env}), env.pf)
		hc := &http.Client{Transport: rtFunc(func(r *http.Request) (*http.Response, error) {
			rec := httptest.NewRecorder()
			hf(rec, r)
			return rec.Result(), nil
		})}
		tr := frugal.NewFHTTPTransportBuilder(hc, "http://down/frugal").Build()
		tr.Open()
		env.downCli = simsvc.NewFLeafClient(frugal.NewFServiceProvider(tr, env.pf))
	}
	return env.downCli
}

// ---- handler -------------------------------------------------------------------

type simHandler struct{ env *e2eEnv }

// (e2eEnv.garbageExpected: set by harnesses that inject damaged requests)

var reservedHdr = map[string]bool{"_opid": true, "_cid": true, "_timeout": true}

func (h *simHandler) enter(fctx frugal.FContext, method string, args ...any) (*callPlan, error) {
	tag, _ := fctx.RequestHeader("tag")
	p := h.env.plans[tag]
	if p == nil && h.env.garbageExpected {
		// the corrupt harness feeds requests whose headers it damaged on purpose
		return nil, errors.New("unknown tag")
	}
	if p == nil {
		h.env.rc.Violate("C03", "handler-unknown-call", h.env.kind, fmt.Sprintf("%s invoked with unknown tag %q", method, tag))
		return nil, errors.New("unknown tag")
	}
	p.handlerRuns++
	if p.method != method {
		h.env.rc.Violate("C03", "wrong-method-invoked", h.env.kind, fmt.Sprintf("call %s planned %s, handler method %s ran", tag, p.method, method))
	}
	p.seenArgs = args
	p.seenHdr = fctx.RequestHeaders()
	p.seenCid = fctx.CorrelationID()
	p.seenTimeout = fctx.Timeout()
	p.seenOpid, _ = fctx.RequestHeader("_opid")
	if p.onward {
		// some response headers, then an onward call with the very context the handler was given, then the rest
		keys := sortedKeys(p.respHdr)
		for _, k := range keys[:len(keys)/2+len(keys)%2] {
			fctx.AddResponseHeader(k, p.respHdr[k])
		}
		octx := fctx
		if p.onwardWrapped {
			// the application decorates the context it was given (tracing, logging) and calls onward with that
			octx = &tracedContext{FContext: fctx}
		}
		p.onwardRet, p.onwardErr = h.env.down().Add(octx, 40, 2)
		for _, k := range keys[len(keys)/2+len(keys)%2:] {
			fctx.AddResponseHeader(k, p.respHdr[k])
		}
	} else {
		for _, k := range sortedKeys(p.respHdr) {
			fctx.AddResponseHeader(k, p.respHdr[k])
		}
	}
	if h.env.handlerHook != nil {
		h.env.handlerHook(p, fctx)
	}
	if p.dur > 0 {
		site := simrt.HarnessSite("handler.sleep")
		simrt.Block(site)
		time.Sleep(p.dur)
		simrt.Yield(site)
	}
	switch p.outcome {
	case "undeclared":
		return p, errors.New(p.msg)
	case "appex":
		return p, thrift.NewTApplicationException(p.appType, p.msg)
	case "transporterr":
		// e.g. a downstream call of the handler timed out and the error is passed on
		return p, thrift.NewTTransportException(thrift.TIMED_OUT, p.msg)
	case "protoerr":
		return p, thrift.NewTProtocolExceptionWithType(thrift.INVALID_DATA, errors.New(p.msg))
	}
	return p, nil
}

func (h *simHandler) BasePing(fctx frugal.FContext, s string) (string, error) {
	p, err := h.enter(fctx, "basePing", s)
	if err != nil {
		return "", err
	}
	if p.outcome == "ex1" {
		return "", p.ret.(*simbase.BaseErr)
	}
	if p.ret == nil {
		// echo (used with rewriting middleware)
		return "pong:" + s, nil
	}
	return p.ret.(string), nil
}
func (h *simHandler) BaseNote(fctx frugal.FContext, s string) error {
	_, err := h.enter(fctx, "baseNote", s)
	return err
}
func (h *simHandler) EchoItem(fctx frugal.FContext, it *simsvc.Item, n int32) (*simsvc.Item, error) {
	p, err := h.enter(fctx, "echoItem", it, n)
	if err != nil {
		return nil, err
	}
	switch p.outcome {
	case "ex1":
		return nil, p.ret.(*simsvc.NotFound)
	case "ex2":
		return nil, p.ret.(*simsvc.Denied)
	}
	return p.ret.(*simsvc.Item), nil
}
func (h *simHandler) DoVoid(fctx frugal.FContext, s string) error {
	p, err := h.enter(fctx, "doVoid", s)
	if err != nil {
		return err
	}
	if p.outcome == "ex1" {
		return p.ret.(*simsvc.Denied)
	}
	return nil
}
func (h *simHandler) Add(fctx frugal.FContext, a, b int32) (int32, error) {
	p, err := h.enter(fctx, "add", a, b)
	if err != nil {
		return 0, err
	}
	return p.ret.(int32), nil
}
func (h *simHandler) Blob(fctx frugal.FContext, b []byte, repeat int32) ([]byte, error) {
	p, err := h.enter(fctx, "blob", b, repeat)
	if err != nil {
		return nil, err
	}
	return p.ret.([]byte), nil
}
func (h *simHandler) BigString(fctx frugal.FContext, size int32, pad string) (string, error) {
	p, err := h.enter(fctx, "bigString", size, pad)
	if err != nil {
		return "", err
	}
	return p.ret.(string), nil
}
func (h *simHandler) Mixed(fctx frugal.FContext, m *simsvc.Mixed) (*simsvc.Mixed, error) {
	p, err := h.enter(fctx, "mixed", m)
	if err != nil {
		return nil, err
	}
	return p.ret.(*simsvc.Mixed), nil
}
func (h *simHandler) URLFor(fctx frugal.FContext, id string, code int32) (string, error) {
	p, err := h.enter(fctx, "URLFor", id, code)
	if err != nil {
		return "", err
	}
	return p.ret.(string), nil
}
func (h *simHandler) Shapes(fctx frugal.FContext, d simsvc.Deep, o *simsvc.Odd, pt simsvc.Paint, kind int16, span int8, ratio float64, iprot string, ctx string, bins [][]byte, labels map[simsvc.Paint]string, pick *simsvc.Choice) (simsvc.Deep, error) {
	p, err := h.enter(fctx, "shapes", d, o, pt, kind, span, ratio, iprot, ctx, bins, labels, pick)
	if err != nil {
		return nil, err
	}
	switch p.outcome {
	case "ex1":
		return nil, p.ret.(*simbase.BaseErr)
	case "ex2":
		return nil, p.ret.(*simsvc.NotFound)
	}
	return p.ret.(simsvc.Deep), nil
}
func (h *simHandler) LeafPing(fctx frugal.FContext, s string) (string, error) {
	p, err := h.enter(fctx, "leafPing", s)
	if err != nil {
		return "", err
	}
	if p.outcome == "ex1" {
		return "", p.ret.(*simsvc.Denied)
	}
	return p.ret.(string), nil
}
func (h *simHandler) Lookup(fctx frugal.FContext, key string) (string, error) {
	p, err := h.enter(fctx, "Lookup", key)
	if err != nil {
		return "", err
	}
	if p.outcome == "ex1" {
		return "", p.ret.(*simsvc.NotFound)
	}
	return p.ret.(string), nil
}
func (h *simHandler) Shapes2(fctx frugal.FContext, d *simsvc.Deepish) (*simsvc.Deepish, error) {
	p, err := h.enter(fctx, "shapes2", d)
	if err != nil {
		return nil, err
	}
	if p.outcome == "ex1" {
		return nil, p.ret.(*simsvc.Loaded)
	}
	return p.ret.(*simsvc.Deepish), nil
}
func (h *simHandler) Many(fctx frugal.FContext, n int32) ([]*simsvc.Item, error) {
	p, err := h.enter(fctx, "many", n)
	if err != nil {
		return nil, err
	}
	return p.ret.([]*simsvc.Item), nil
}
func (h *simHandler) Choose(fctx frugal.FContext, c *simsvc.Choice) (*simsvc.Choice, error) {
	p, err := h.enter(fctx, "choose", c)
	if err != nil {
		return nil, err
	}
	return p.ret.(*simsvc.Choice), nil
}
func (h *simHandler) Color(fctx frugal.FContext, c simsvc.Color) (simsvc.Color, error) {
	p, err := h.enter(fctx, "color", c)
	if err != nil {
		return 0, err
	}
	return p.ret.(simsvc.Color), nil
}
func (h *simHandler) Stamp(fctx frugal.FContext, s simsvc.Stamp) (simsvc.Stamp, error) {
	p, err := h.enter(fctx, "stamp", s)
	if err != nil {
		return 0, err
	}
	return p.ret.(simsvc.Stamp), nil
}
func (h *simHandler) HeadersSeen(fctx frugal.FContext) (map[string]string, error) {
	p, err := h.enter(fctx, "headersSeen")
	if err != nil {
		return nil, err
	}
	return p.ret.(map[string]string), nil
}
func (h *simHandler) Fire(fctx frugal.FContext, s string) error {
	_, err := h.enter(fctx, "fire", s)
	return err
}

// ---- invoking the generated client ---------------------------------------------------

func (env *e2eEnv) invoke(p *callPlan) {
	var ctx frugal.FContext
	if p.reuse != nil && p.reuse.ctx != nil && p.reuse.returned {
		// the same FContext object goes out again with another timeout and more headers:
		// what is on the context NOW is what the handler must see
		ctx = p.reuse.ctx
		if p.reuse.timeout <= time.Minute && env.rc.Tape.Intn("reusegap", 3) == 2 {
			// ... some time later: longer than the earlier call was allowed to take
			env.rc.Fault("fcontext-reused-after-more-than-its-earlier-timeout")
			settle(p.reuse.timeout + 7*time.Millisecond)
		}
		p.cid = ctx.CorrelationID()
		p.sameCtx = p.reuse.sameCtx
		env.rc.Fault("fcontext-reused-for-another-call")
	} else {
		ctx = frugal.NewFContext(p.cid)
		p.reuse = nil
	}
	p.ctx = ctx
	p.sameCtx = append(p.sameCtx, p)
	for _, q := range p.sameCtx {
		q.sameCtx = p.sameCtx
	}
	if p.reuse != nil && !p.reuse.oneway && p.reuse.gotErr == nil && env.rc.Tape.Intn("reuse", 2) == 1 {
		// nothing but the timeout changes between the two calls (the handler
		// finds the plan through the unchanged tag header)
		delete(env.plans, p.tag)
		p.tag = p.reuse.tag
		env.plans[p.tag] = p
		ctx.SetTimeout(p.timeout)
		env.rc.Fault("fcontext-reused-only-timeout-changed")
	} else {
		ctx.SetTimeout(p.timeout)
		ctx.AddRequestHeader("tag", p.tag)
		for k, v := range p.reqHdr {
			ctx.AddRequestHeader(k, v)
		}
	}
	if p.reuse != nil {
		p.reqHdr = userHeaders(ctx.RequestHeaders())
	}
	p.opid, _ = ctx.RequestHeader("_opid")
	if p.staleRespKey != "" {
		ctx.AddResponseHeader(p.staleRespKey, "stale-value-from-an-earlier-call")
	}
	if p.shape != nil {
		p.shape(ctx.RequestHeaders())
		for k, v := range p.shapedReqHdr {
			ctx.AddRequestHeader(k, v)
			p.reqHdr[k] = v
		}
	}
	p.invokeStep, p.invokeAt = env.s.Step, env.s.Now()
	c := env.client
	if p.via2 && env.client2 != nil {
		c = env.client2
	}
	switch p.method {
	case "basePing":
		p.gotRet, p.gotErr = c.BasePing(ctx, p.args[0].(string))
	case "baseNote":
		p.gotErr = c.BaseNote(ctx, p.args[0].(string))
	case "echoItem":
		p.gotRet, p.gotErr = c.EchoItem(ctx, p.args[0].(*simsvc.Item), p.args[1].(int32))
	case "doVoid":
		p.gotErr = c.DoVoid(ctx, p.args[0].(string))
	case "add":
		p.gotRet, p.gotErr = c.Add(ctx, p.args[0].(int32), p.args[1].(int32))
	case "blob":
		p.gotRet, p.gotErr = c.Blob(ctx, p.args[0].([]byte), p.args[1].(int32))
	case "bigString":
		p.gotRet, p.gotErr = c.BigString(ctx, p.args[0].(int32), p.args[1].(string))
	case "mixed":
		p.gotRet, p.gotErr = c.Mixed(ctx, p.args[0].(*simsvc.Mixed))
	case "URLFor":
		p.gotRet, p.gotErr = c.URLFor(ctx, p.args[0].(string), p.args[1].(int32))
	case "Lookup":
		p.gotRet, p.gotErr = c.Lookup(ctx, p.args[0].(string))
	case "shapes":
		a := p.args
		p.gotRet, p.gotErr = c.Shapes(ctx, a[0].(simsvc.Deep), a[1].(*simsvc.Odd), a[2].(simsvc.Paint), a[3].(int16), a[4].(int8), a[5].(float64), a[6].(string), a[7].(string), a[8].([][]byte), a[9].(map[simsvc.Paint]string), a[10].(*simsvc.Choice))
	case "shapes2":
		p.gotRet, p.gotErr = c.Shapes2(ctx, p.args[0].(*simsvc.Deepish))
	case "leafPing":
		p.gotRet, p.gotErr = c.LeafPing(ctx, p.args[0].(string))
	case "many":
		p.gotRet, p.gotErr = c.Many(ctx, p.args[0].(int32))
	case "choose":
		p.gotRet, p.gotErr = c.Choose(ctx, p.args[0].(*simsvc.Choice))
	case "color":
		p.gotRet, p.gotErr = c.Color(ctx, p.args[0].(simsvc.Color))
	case "stamp":
		p.gotRet, p.gotErr = c.Stamp(ctx, p.args[0].(simsvc.Stamp))
	case "headersSeen":
		p.gotRet, p.gotErr = c.HeadersSeen(ctx)
	case "fire":
		p.gotErr = c.Fire(ctx, p.args[0].(string))
	}
	p.returnStep, p.returnAt, p.returned = env.s.Step, env.s.Now(), true
	p.gotRespHdr = ctx.ResponseHeaders()
}

// ---- value generation and comparison ----------------------------------------------------

var hdrAlphabet = []string{"a", "Z", "0", "-", "_x", "é", "日本", " ", "=", "\n", "k"}

func genString(tp *simrt.Tape, stream string, maxLen int) string {
	n := tp.Intn(stream, maxLen+1)
	var sb strings.Builder
	for i := 0; i < n; i++ {
		sb.WriteString(hdrAlphabet[tp.Intn(stream, len(hdrAlphabet))])
	}
	return sb.String()
}

func genItem(tp *simrt.Tape, id int64) *simsvc.Item {
	it := &simsvc.Item{ID: id, Color: []simsvc.Color{0, 1, 2, 5}[tp.Intn("val", 4)], Ts: simsvc.Stamp(tp.Intn("val", 1<<20)) - 1000,
		Weight: float64(tp.Intn("val", 1000)) / 8, Flag: tp.Intn("val", 2) == 1,
		Blob: &simbase.Blob{Name: genString(tp, "val", 6), Data: []byte(genString(tp, "val", 8)), Nums: []int32{}}}
	if tp.Intn("val", 2) == 1 {
		l := genString(tp, "val", 5)
		it.Label = &l
	}
	it.Attrs = map[string][]int32{}
	for i, n := 0, tp.Intn("val", 3); i < n; i++ {
		var l []int32
		for j, m := 0, tp.Intn("val", 3); j < m; j++ {
			l = append(l, int32(tp.Intn("val", 100))-50)
		}
		it.Attrs[fmt.Sprintf("k%d", i)] = l
	}
	it.Tags = map[string]bool{}
	for i, n := 0, tp.Intn("val", 3); i < n; i++ {
		it.Tags[fmt.Sprintf("t%d", tp.Intn("val", 5))] = true
	}
	for i, n := 0, tp.Intn("val", 3); i < n; i++ {
		it.Blob.Nums = append(it.Blob.Nums, int32(tp.Intn("val", 1000)))
	}
	return it
}

// normalise makes Thrift-insignificant differences disappear (nil vs empty
// container or binary) so that values can be compared with reflect.DeepEqual.
func normalise(v reflect.Value) reflect.Value {
	switch v.Kind() {
	case reflect.Ptr:
		if v.IsNil() {
			return v
		}
		n := reflect.New(v.Type().Elem())
		n.Elem().Set(normalise(v.Elem()))
		return n
	case reflect.Struct:
		n := reflect.New(v.Type()).Elem()
		for i := 0; i < v.NumField(); i++ {
			if n.Field(i).CanSet() {
				n.Field(i).Set(normalise(v.Field(i)))
			}
		}
		return n
	case reflect.Slice:
		n := reflect.MakeSlice(v.Type(), v.Len(), v.Len())
		for i := 0; i < v.Len(); i++ {
			n.Index(i).Set(normalise(v.Index(i)))
		}
		return n
	case reflect.Map:
		n := reflect.MakeMap(v.Type())
		for _, k := range v.MapKeys() {
			n.SetMapIndex(k, normalise(v.MapIndex(k)))
		}
		return n
	case reflect.Interface:
		if v.IsNil() {
			return v
		}
		return normalise(v.Elem())
	}
	return v
}

func valuesEqual(a, b any) bool {
	if a == nil || b == nil {
		return a == nil && b == nil
	}
	return reflect.DeepEqual(normalise(reflect.ValueOf(a)).Interface(), normalise(reflect.ValueOf(b)).Interface())
}

func argsEqual(a, b []any) bool {
	if len(a) != len(b) {
		return false
	}
	for i := range a {
		if !valuesEqual(a[i], b[i]) {
			return false
		}
	}
	return true
}

func userHeaders(h map[string]string) map[string]string {
	out := map[string]string{}
	for k, v := range h {
		if !reservedHdr[k] && k != "tag" {
			out[k] = v
		}
	}
	return out
}

func sortedKeys(m map[string]string) []string {
	ks := make([]string, 0, len(m))
	for k := range m {
		ks = append(ks, k)
	}
	sort.Strings(ks)
	return ks
}

func (p *callPlan) trace(mwName, ev string) {
	if strings.HasPrefix(mwName, "srv") || strings.HasPrefix(mwName, "added") {
		p.mwSrv = append(p.mwSrv, ev)
	} else {
		p.mw = append(p.mw, ev)
	}
}
