package harness

import (
	"fmt"
	"sort"
	"strconv"
	"strings"
	"time"

	frugal "github.com/Workiva/frugal/lib/go"
	"github.com/apache/thrift/lib/go/thrift"
	"github.com/nats-io/nats.go"
	"verif/simrt"
)

// natsdrain harness (DESIGN.md §3 C20): the real fNatsServer (Serve, Stop,
// handler, workers, drainNatsMessages) on the real nats.go client against the
// simulated broker. The peer injects a stream of requests at the broker, Stop
// lands at a tape-chosen position.

type drainReq struct {
	id              int
	routedStep      int
	routedAt        time.Duration
	deliveredStep   int // handed to the server's connection; 0 = never
	handlerRuns     int
	handlerDoneStep int
	replies         int
	replyStep       int
	dur             time.Duration
	noReply         bool // published without a reply subject: the server discards it (nothing to answer to)
	callsStop       bool // a "shut down" request: its handler calls Stop on the server that runs it
	bigReply        bool // its reply is larger than the broker's max_payload: the connection refuses it
}

type drainProc struct {
	h *drainHarness
}

func (p *drainProc) AddMiddleware(frugal.ServiceMiddleware)    {}
func (p *drainProc) Annotations() map[string]map[string]string { return nil }
func (p *drainProc) Process(in, out *frugal.FProtocol) error {
	ctx, err := in.ReadRequestHeader()
	if err != nil {
		return err
	}
	ids, _ := ctx.RequestHeader("id")
	id, _ := strconv.Atoi(ids)
	r := p.h.reqs[id]
	if r == nil {
		return fmt.Errorf("unknown id %q", ids)
	}
	r.handlerRuns++
	if r.dur > 0 {
		site := simrt.HarnessSite("drain.handler-sleep")
		simrt.Block(site)
		time.Sleep(r.dur)
		simrt.Yield(site)
	}
	if r.callsStop && p.h.stopFn != nil {
		p.h.stopFn()
	}
	r.handlerDoneStep = p.h.s.Step
	if err := out.WriteResponseHeader(ctx); err != nil {
		return err
	}
	_, err = out.Transport().Write([]byte("ok:" + ids))
	if r.bigReply {
		out.Transport().Write(make([]byte, 600))
	}
	return err
}

type drainHarness struct {
	rc     *RunCtx
	s      *simrt.Sim
	reqs   map[int]*drainReq
	stopFn func()
}

func init() { Register("natsdrain", natsdrainHarness) }

func natsdrainHarness(rc *RunCtx) {
	tp := rc.Tape
	rc.AllowStalls = true // the oracle is stated in scheduler steps, not in time
	s := rc.NewSim(rc.Scale(40000, 120000), 10*time.Minute)
	h := &drainHarness{rc: rc, s: s, reqs: map[int]*drainReq{}}
	b := NewSimBroker(rc)
	smallPayload := tp.Intn("maxpayload", 4) == 3
	if smallPayload {
		// a broker whose max_payload is below frugal's own reply limit: some replies are refused by the connection
		b.MaxPayload = 300
	}
	closeAtOnce := tp.Intn("closeafter", 3) == 2
	if k := tp.Intn("conncfg", 4); k >= 2 {
		// an application-chosen drain timeout on the connection (it governs Conn.Drain; the server drains
		// subscriptions and must wait for its own backlog however long that takes)
		b.ConnOptions = append(b.ConnOptions, nats.DrainTimeout([]time.Duration{100 * time.Millisecond, 5 * time.Millisecond}[k-2]))
		rc.Fault("short-connection-drain-timeout")
	}
	queueGroup := tp.Intn("conncfg", 3) == 2
	workers := 1 + tp.Intn("cfg", rc.Scale(4, 6))
	qlen := 1 + tp.Intn("cfg", rc.Scale(8, 16))
	nreq := 1 + tp.Intn("cfg", rc.Scale(30, 80))
	nafter := tp.Intn("cfg", 4)
	stopAfter := tp.Intn("cfg", nreq+1) // Stop is invoked once this many requests were handed to the server's connection
	durChoices := []time.Duration{0, 0, time.Millisecond, 5 * time.Millisecond, 20 * time.Millisecond, 50 * time.Millisecond}
	spread := tp.Intn("cfg", 3) // 0: burst at once, 1: 1ms apart, 2: random gaps
	nSubj := 1 + tp.Biased("cfg", 3)
	subjects := []string{"svc", "svc.b", "other"}[:nSubj]
	rc.Sample["subjects"] = nSubj
	rc.Sample["workers"] = workers
	rc.Sample["queue_len"] = qlen
	rc.Sample["requests"] = nreq
	rc.Sample["requests_after_stop"] = nafter
	rc.Sample["stop_after_delivered"] = stopAfter
	rc.Nontrivial = true
	if qlen+workers < nreq {
		rc.Fault("burst-larger-than-queue-plus-workers")
	}

	var stopInvokedStep, stopReturnedStep, serveReturnedStep int
	var stopErr, serveErr error
	finished := false
	delivered := 0
	stopC := make(chan struct{}, 1)
	siteStop := simrt.HarnessSite("drain.stop-signal")
	var srvConnID int

	b.OnDeliver = func(c *BrokerConn, subject string, data []byte) {
		isSubj := false
		for _, sj := range subjects {
			isSubj = isSubj || sj == subject
		}
		if !isSubj {
			return
		}
		f, err := DecodeFrame(data)
		if err != nil {
			return
		}
		id, _ := strconv.Atoi(f.Headers["id"])
		if r := h.reqs[id]; r != nil && r.deliveredStep == 0 {
			r.deliveredStep = s.Step
			delivered++
			if delivered == stopAfter {
				select {
				case stopC <- struct{}{}:
				default:
				}
			}
		}
	}
	b.OnPublish = func(c *BrokerConn, subject, reply string, hdr, data []byte) bool {
		if strings.HasPrefix(subject, "_INBOX.peer.") {
			id, _ := strconv.Atoi(subject[len("_INBOX.peer."):])
			if r := h.reqs[id]; r != nil {
				r.replies++
				r.replyStep = s.Step
				f, err := DecodeFrame(data)
				if err != nil || f.Headers["_opid"] != strconv.Itoa(100000+id) || string(f.Payload) != "ok:"+strconv.Itoa(id) {
					rc.Violate("C20", "bad-reply", "nats", fmt.Sprintf("request %d: reply %q err %v", id, data, err))
				}
			}
			return true
		}
		return false
	}
	inject := func(id int) {
		r := h.reqs[id]
		r.routedStep, r.routedAt = s.Step, s.Now()
		frame := EncodeFrame(map[string]string{"_opid": strconv.Itoa(100000 + id), "_cid": "c", "id": strconv.Itoa(id), "_timeout": "5000"}, []byte("req"))
		reply := fmt.Sprintf("_INBOX.peer.%d", id)
		if r.noReply {
			reply = ""
		}
		b.Route(subjects[id%len(subjects)], reply, nil, frame)
	}

	s.GoRoot("main", "main", func() {
		nc, err := b.Connect("server")
		if err != nil {
			rc.Violate("INFRA", "connect", "nats", err.Error())
			finished = true
			return
		}
		srvConnID = len(b.conns)
		_ = srvConnID
		pf := frugal.NewFProtocolFactory(thrift.NewTBinaryProtocolFactoryConf(nil))
		bld := frugal.NewFNatsServerBuilder(nc, &drainProc{h: h}, pf, subjects)
		if queueGroup {
			// the only member of its queue group: nobody else can take what it hands back
			bld = bld.WithQueueGroup("workers")
			rc.Fault("server-in-a-queue-group")
		}
		if k := tp.Intn("watermark", 4); k >= 2 {
			// a low high-water mark: requests that waited longer in the queue are reported (and still served)
			bld = bld.WithHighWatermark([]time.Duration{time.Millisecond, 30 * time.Millisecond}[k-2])
			rc.Fault("low-high-watermark")
		}
		bld = bld.WithWorkerCount(uint(workers)).WithQueueLength(uint(qlen))
		if tp.Intn("hooks", 2) == 1 {
			// application-supplied event hooks instead of the built-in ones (which time-stamp each request)
			bld = bld.WithRequestReceivedEventHandler(func(map[interface{}]interface{}) {}).
				WithRequestStartedEventHandler(func(map[interface{}]interface{}) {}).
				WithRequestFinishedEventHandler(func(map[interface{}]interface{}) {})
		}
		srv := bld.Build()
		serveDone := make(chan struct{}, 1)
		siteServe := simrt.HarnessSite("drain.serve-done")
		s.Go("serve", func() {
			serveErr = srv.Serve()
			serveReturnedStep = s.Step
			simrt.Send(siteServe, serveDone, struct{}{})
		})
		site := simrt.HarnessSite("drain.wait-sub")
		if tp.Intn("earlystop", 6) == 5 {
			// Stop arrives while Serve is still setting up its subscriptions: Serve must still end, and nothing
			// published after Stop returned may be processed
			rc.Fault("stop-while-serve-is-starting")
			stopInvokedStep = s.Step
			stopErr = srv.Stop()
			stopReturnedStep = s.Step
			for i := 0; i < 3; i++ {
				id := 2000 + i
				h.reqs[id] = &drainReq{id: id}
				inject(id)
			}
			simrt.Recv(siteServe, serveDone)
			settle(time.Second)
			finished = true
			return
		}
		// wait until the subscription exists at the broker before the peer starts
		for i := 0; b.SubCount(subjects[len(subjects)-1]) == 0 && i < 6000; i++ {
			simrt.Block(site)
			time.Sleep(10 * time.Millisecond)
			simrt.Yield(site)
		}
		if b.SubCount(subjects[len(subjects)-1]) == 0 {
			rc.Violate("INFRA", "no-subscription", "nats", "")
			finished = true
			return
		}
		if tp.Intn("rebuild", 5) == 4 {
			// the application builds another server from the same builder (for a later restart, say) and does not
			// start it: the one that is serving is a server of its own
			rc.Fault("second-server-built-from-the-same-builder")
			_ = bld.Build()
		}
		// the request stream
		var at time.Duration
		stopByHandler := 0
		handlerStopped := make(chan struct{}, 1)
		if workers >= 2 && tp.Intn("handlerstop", 5) == 1 {
			// a "shut down" request: its handler calls Stop on the server it runs on (another worker keeps taking
			// requests off the queue meanwhile). Stop and Serve return as for a Stop from outside.
			rc.Fault("stop-called-from-a-handler")
			stopByHandler = 1 + tp.Intn("handlerstop", nreq)
			h.stopFn = func() {
				stopInvokedStep = s.Step
				stopErr = srv.Stop()
				stopReturnedStep = s.Step
				simrt.Send(siteStop, handlerStopped, struct{}{})
			}
		}
		for i := 0; i < nreq; i++ {
			id := i + 1
			h.reqs[id] = &drainReq{id: id, dur: durChoices[tp.Intn("peer", len(durChoices))], callsStop: id == stopByHandler}
			if tp.Intn("noreply", 12) == 11 && id != stopByHandler {
				// somebody publishes to the served subject without a reply subject: discarded, and nothing else suffers
				h.reqs[id].noReply = true
				rc.Fault("request-without-reply-subject")
			}
			if smallPayload && tp.Intn("maxpayload", 4) == 0 {
				h.reqs[id].bigReply = true
				rc.Fault("reply-refused-by-connection-max-payload")
			}
			if h.reqs[id].dur > 0 {
				rc.Fault("slow-handler")
			}
			switch spread {
			case 1:
				at += time.Millisecond
			case 2:
				at += time.Duration(tp.Intn("peer", 30)) * time.Millisecond
			}
			s.AddEvent(fmt.Sprintf("peer:req:%03d", id), at, func() { inject(id) })
		}
		if stopByHandler > 0 {
			simrt.Recv(siteStop, handlerStopped)
		} else {
			if stopAfter > 0 {
				simrt.Recv(siteStop, stopC)
			}
			stopInvokedStep = s.Step
			for _, t := range s.Tasks() {
				if t.State == "native" && strings.Contains(t.SiteKey, "nats_server.go handler/send") {
					rc.Probe("stop-while-callback-blocked-on-full-queue")
				}
			}
			if delivered < nreq {
				rc.Fault("stop-mid-stream")
			}
			stopErr = srv.Stop()
			stopReturnedStep = s.Step
		}
		for i := 0; i < nafter*len(subjects); i++ {
			id := 1000 + i
			h.reqs[id] = &drainReq{id: id}
			inject(id)
		}
		simrt.Recv(siteServe, serveDone)
		if closeAtOnce {
			// "Do NOT close the nats connection until Serve() returns": it has, so the
			// application closes it (Close flushes what the connection has buffered)
			rc.Fault("connection-closed-as-soon-as-serve-returns")
			simrt.Block(site)
			nc.Close()
			simrt.Yield(site)
		}
		// let everything in flight settle, then flush the connection
		simrt.Block(site)
		time.Sleep(2 * time.Second)
		simrt.Yield(site)
		simrt.Block(site)
		nc.Flush()
		simrt.Yield(site)
		simrt.Block(site)
		time.Sleep(time.Second)
		simrt.Yield(site)
		finished = true
	})

	s.Run(func() bool { return finished && b.Pending() == 0 && s.PendingEvents() == 0 })

	// ---- oracle ----
	if !finished {
		where := "?"
		switch {
		case stopInvokedStep == 0:
			where = "before Stop was invoked"
		case stopReturnedStep == 0:
			where = "Stop did not return"
		case serveReturnedStep == 0:
			where = "Serve did not return"
		}
		rc.Violate("C20", "shutdown-hangs", where, fmt.Sprintf("workers=%d queue=%d requests=%d stopAfter=%d: %s", workers, qlen, nreq, stopAfter, where))
	}
	if stopErr != nil || serveErr != nil {
		rc.Violate("C20", "shutdown-error", "nats", fmt.Sprintf("Stop: %v Serve: %v", stopErr, serveErr))
	}
	ids := make([]int, 0, len(h.reqs))
	for id := range h.reqs {
		ids = append(ids, id)
	}
	sort.Ints(ids)
	for _, id := range ids {
		r := h.reqs[id]
		if r.handlerRuns > 1 {
			rc.Violate("C20", "request-processed-twice", "nats", fmt.Sprintf("request %d processed %d times", id, r.handlerRuns))
		}
		if r.replies > 1 {
			rc.Violate("C20", "request-replied-twice", "nats", fmt.Sprintf("request %d got %d replies", id, r.replies))
		}
		if !finished {
			continue
		}
		if r.noReply {
			if r.handlerRuns > 0 || r.replies > 0 {
				rc.Violate("C20", "reply-less-request-processed", "nats", fmt.Sprintf("request %d had no reply subject, yet it was processed %d times and answered %d times", id, r.handlerRuns, r.replies))
			}
			continue
		}
		inA := r.deliveredStep > 0 && stopInvokedStep > 0 && r.deliveredStep < stopInvokedStep
		inC := stopReturnedStep > 0 && r.routedStep >= stopReturnedStep
		switch {
		case inA:
			if r.handlerRuns == 0 {
				rc.Violate("C20", "accepted-request-lost", "nats", fmt.Sprintf("request %d reached the server's connection at step %d, before Stop was invoked (step %d), and was never processed (workers=%d queue=%d)", id, r.deliveredStep, stopInvokedStep, workers, qlen))
			} else {
				if r.handlerDoneStep > serveReturnedStep && serveReturnedStep > 0 {
					rc.Violate("C20", "processed-after-serve-returned", "nats", fmt.Sprintf("request %d finished at step %d, Serve returned at %d", id, r.handlerDoneStep, serveReturnedStep))
				}
				if r.replies == 0 && !r.bigReply {
					rc.Violate("C20", "accepted-request-not-answered", "nats", fmt.Sprintf("request %d was processed but its reply never reached the broker", id))
				}
			}
		case inC:
			if r.handlerRuns > 0 {
				rc.Violate("C20", "processed-after-stop", "nats", fmt.Sprintf("request %d was published after Stop had returned and was still processed", id))
			}
		default:
			if r.handlerRuns > 0 && r.replies == 0 && !r.bigReply {
				rc.Violate("C20", "processed-not-answered", "nats", fmt.Sprintf("request %d (in flight at Stop) was processed but not answered", id))
			}
		}
	}
	s.Shutdown()
	b.Kill()
}
