package harness

import (
	"bytes"
	"fmt"
	"reflect"
	"sort"
	"strings"
	"time"

	frugal "github.com/Workiva/frugal/lib/go"
	"github.com/anishathalye/porcupine"
	"github.com/apache/thrift/lib/go/thrift"
	"verif/simrt"
)

// ctx harness (DESIGN.md §3 C17): 2-6 tasks create, clone, read, mutate and
// exchange FContexts - one shared FContext hammered by all, private ones per
// task, contexts produced by ReadRequestHeader - with scheduling points at
// every lock and atomic of context.go and a lockset oracle on its maps and on
// the op id counter (the build passes -mem to simgen).

type ctxOp struct {
	client    int
	kind      string // put | get | all  (request headers of the shared context)
	key, val  string
	ok        bool
	snapshot  map[string]string
	call, ret int64
}

type ctxIn struct {
	kind, key, val string
}
type ctxOut struct {
	val  string
	ok   bool
	snap string
}

func snapString(m map[string]string) string {
	ks := make([]string, 0, len(m))
	for k := range m {
		if strings.HasPrefix(k, "k") {
			ks = append(ks, k)
		}
	}
	sort.Strings(ks)
	var sb strings.Builder
	for _, k := range ks {
		sb.WriteString(k + "=" + m[k] + ";")
	}
	return sb.String()
}

var ctxModel = porcupine.Model{
	Init: func() interface{} { return "kT=5000;" },
	Step: func(state, input, output interface{}) (bool, interface{}) {
		st := map[string]string{}
		for _, kv := range strings.Split(state.(string), ";") {
			if i := strings.Index(kv, "="); i > 0 {
				st[kv[:i]] = kv[i+1:]
			}
		}
		in, out := input.(ctxIn), output.(ctxOut)
		switch in.kind {
		case "put":
			st[in.key] = in.val
			return true, snapString(st)
		case "get":
			v, ok := st[in.key]
			return ok == out.ok && v == out.val, state
		case "eall":
			// snapshot of the ephemeral properties: exactly the kE registers
			for k := range st {
				if !strings.HasPrefix(k, "kE") {
					delete(st, k)
				}
			}
			return snapString(st) == out.snap, state
		default:
			delete(st, "kT") // the timeout is not part of RequestHeaders() as far as this model goes
			for k := range st {
				if strings.HasPrefix(k, "kE") { // nor are the ephemeral properties
					delete(st, k)
				}
			}
			return snapString(st) == out.snap, state
		}
	},
	Equal: func(a, b interface{}) bool { return a.(string) == b.(string) },
}

// plainCtx hides FContextWithEphemeralProperties so that frugal.Clone takes
// its generic path.
type plainCtx struct{ frugal.FContext }

func init() { Register("ctx", ctxHarness) }

func ctxHarness(rc *RunCtx) {
	tp := rc.Tape
	s := rc.NewSim(40000, time.Minute)
	s.MemOn = true
	nTasks := 2 + tp.Intn("cfg", rc.Scale(5, 7))
	opsPer := 3 + tp.Intn("cfg", rc.Scale(6, 10))
	rc.Sample["tasks"], rc.Sample["ops_per_task"] = nTasks, opsPer
	rc.Nontrivial = true

	pf := frugal.NewFProtocolFactory(thrift.NewTBinaryProtocolFactoryConf(nil))
	// the context everybody hammers: created here, a clone, or one read off the wire
	// (the last two start with whatever lazily computed state the implementation keeps "cold")
	shared := frugal.NewFContext("shared")
	sharedKind := []string{"new", "clone", "generic-clone", "received", "new-generated-cid"}[tp.Intn("sharedkind", 5)]
	switch sharedKind {
	case "new-generated-cid":
		// the library picks the correlation id: whenever it does so, everybody must see the same one
		shared = frugal.NewFContext("")
	case "clone":
		shared = shared.(frugal.FContextWithEphemeralProperties).Clone()
	case "generic-clone":
		shared = frugal.Clone(plainCtx{shared})
	case "received":
		body := EncodeBody(map[string]string{"_opid": "777777", "_cid": "shared", "_timeout": "5000"}, nil)
		if rctx, err := pf.GetProtocol(&thrift.TMemoryBuffer{Buffer: bytes.NewBuffer(body)}).ReadRequestHeader(); err == nil {
			shared = rctx
		}
	}
	rc.Sample["shared_context"] = sharedKind
	var seq int64
	var hist []ctxOp
	opids := map[string]string{}
	noteOpid := func(ctx frugal.FContext, where string) {
		id, ok := ctx.RequestHeader("_opid")
		if !ok || id == "" {
			rc.Violate("C17", "context-without-opid", where, "")
			return
		}
		if prev, dup := opids[id]; dup {
			rc.Violate("C17", "duplicate-opid", "context.go", fmt.Sprintf("op id %s carried by two contexts: %s and %s", id, prev, where))
		}
		opids[id] = where
	}
	noteOpid(shared, "shared")
	cidSeen := map[string]string{}
	noteCid := func(cid, where string) {
		if cid == "" {
			rc.Violate("C17", "correlation-id-unstable", "context.go", "empty correlation id observed by "+where)
		}
		cidSeen[cid] = where
		if len(cidSeen) > 1 {
			rc.Violate("C17", "correlation-id-unstable", "context.go", fmt.Sprintf("one FContext, several correlation ids: %v", cidSeen))
		}
	}
	// a long-running process: contexts made long ago are still around when the
	// counter reaches a width boundary
	if b := []uint64{0, 0, 0, 1<<16 - 2, 1<<31 - 2, 1<<32 - 3, 1<<53 - 2, 1<<63 - 2}[tp.Intn("opidbase", 8)]; b != 0 {
		for i := 0; i < 3; i++ {
			noteOpid(frugal.NewFContext("old"), fmt.Sprintf("long-lived#%d", i))
		}
		frugal.SimSetOpIDBase(b)
		rc.Fault("opid-counter-near-width-boundary")
		rc.Sample["opid_base"] = b
	}
	// a header "is on" a context if either accessor says so (a cached snapshot may disagree with the live map)
	hasReq := func(c frugal.FContext, k string) bool {
		_, a := c.RequestHeader(k)
		_, b := c.RequestHeaders()[k]
		return a || b
	}
	hasResp := func(c frugal.FContext, k string) bool {
		_, a := c.ResponseHeader(k)
		_, b := c.ResponseHeaders()[k]
		return a || b
	}
	valN := 0
	sharedEph, _ := shared.(frugal.FContextWithEphemeralProperties)
	finished := false
	doneC := make(chan int, nTasks)
	siteDone := simrt.HarnessSite("ctx.task-done")
	setTimeout := func(t int, ms int) {
		op := ctxOp{client: t, kind: "put", key: "kT", val: fmt.Sprint(ms)}
		seq++
		op.call = seq
		shared.SetTimeout(time.Duration(ms) * time.Millisecond)
		seq++
		op.ret = seq
		hist = append(hist, op)
	}
	getTimeout := func(t int) {
		op := ctxOp{client: t, kind: "get", key: "kT", ok: true}
		seq++
		op.call = seq
		op.val = fmt.Sprint(int64(shared.Timeout() / time.Millisecond))
		seq++
		op.ret = seq
		hist = append(hist, op)
	}

	s.GoRoot("main", "main", func() {
		for t := 0; t < nTasks; t++ {
			t := t
			s.Go("ctx-task", func() {
				private := frugal.NewFContext(fmt.Sprintf("p%d", t))
				noteOpid(private, fmt.Sprintf("task%d/private", t))
				if tp.Intn("longproto", 3) == 1 {
					// one protocol object reads the requests of a long-lived connection, one after the other, while
					// the rest of the process goes on creating contexts: every received context has its own op id
					rc.Fault("one-protocol-reads-many-requests")
					buf := &thrift.TMemoryBuffer{Buffer: bytes.NewBuffer(nil)}
					in := pf.GetProtocol(buf)
					for j, n := 0, 20+tp.Intn("longproto", 30); j < n; j++ {
						buf.Write(EncodeBody(map[string]string{"_opid": fmt.Sprint(800000 + t*1000 + j), "_cid": "l"}, nil))
						rctx, err := in.ReadRequestHeader()
						if err != nil {
							rc.Violate("INFRA", "read-request-header", "ctx long-lived protocol", err.Error())
							break
						}
						noteOpid(rctx, fmt.Sprintf("task%d/received-on-long-lived-protocol#%d", t, j))
						if tp.Intn("longproto", 3) == 0 {
							noteOpid(frugal.NewFContext("between"), fmt.Sprintf("task%d/created-between-received#%d", t, j))
						}
					}
				}
				for i := 0; i < opsPer; i++ {
					switch k := tp.Intn("ops", 10); {
					case tp.Intn("tmo", 5) == 4:
						// the timeout of the shared context is a register like any header
						if tp.Intn("tmo", 2) == 0 {
							setTimeout(t, 1+tp.Intn("tmo", 9000))
						} else {
							getTimeout(t)
						}
						_ = k
					case tp.Intn("eph", 6) == 5 && sharedEph != nil:
						// ephemeral properties of the shared context: registers kE0..kE2 of the same model, written,
						// read and copied (what Clone does) by everybody
						rc.Sim.Count("probe:ephemeral-property-ops-on-the-shared-context")
						ek := fmt.Sprintf("kE%d", tp.Intn("eph", 3))
						switch tp.Intn("eph", 3) {
						case 0:
							valN++
							op := ctxOp{client: t, kind: "put", key: ek, val: fmt.Sprintf("ev%d", valN)}
							seq++
							op.call = seq
							sharedEph.AddEphemeralProperty(op.key, op.val)
							seq++
							op.ret = seq
							hist = append(hist, op)
						case 1:
							op := ctxOp{client: t, kind: "get", key: ek}
							seq++
							op.call = seq
							v, ok := sharedEph.EphemeralProperty(op.key)
							seq++
							op.ret = seq
							op.ok = ok
							if ok {
								op.val, _ = v.(string)
							}
							hist = append(hist, op)
						default:
							op := ctxOp{client: t, kind: "eall"}
							seq++
							op.call = seq
							all := sharedEph.EphemeralProperties()
							seq++
							op.ret = seq
							op.snapshot = map[string]string{}
							for k, v := range all {
								if ks, isS := k.(string); isS {
									op.snapshot[ks], _ = v.(string)
								}
							}
							hist = append(hist, op)
						}
					case k <= 2: // put on the shared context
						valN++
						op := ctxOp{client: t, kind: "put", key: fmt.Sprintf("k%d", tp.Intn("ops", 3)), val: fmt.Sprintf("v%d", valN)}
						seq++
						op.call = seq
						shared.AddRequestHeader(op.key, op.val)
						seq++
						op.ret = seq
						hist = append(hist, op)
					case k <= 4: // get
						op := ctxOp{client: t, kind: "get", key: fmt.Sprintf("k%d", tp.Intn("ops", 3))}
						seq++
						op.call = seq
						op.val, op.ok = shared.RequestHeader(op.key)
						seq++
						op.ret = seq
						hist = append(hist, op)
					case k == 5 && tp.Intn("serialise", 2) == 1: // snapshot taken by serialising the context (what a call does)
						op := ctxOp{client: t, kind: "all"}
						seq++
						op.call = seq
						buf := thrift.NewTMemoryBuffer()
						werr := pf.GetProtocol(buf).WriteRequestHeader(shared)
						seq++
						op.ret = seq
						if werr != nil {
							rc.Violate("C17", "context-serialised-badly", "protocol.go", "WriteRequestHeader of a context under concurrent use failed: "+werr.Error())
							break
						}
						f, derr := DecodeBody(append([]byte(nil), buf.Bytes()...))
						if derr != nil {
							rc.Violate("C17", "context-serialised-badly", "protocol.go", fmt.Sprintf("the header block written for a context under concurrent use does not parse: %v (% x)", derr, buf.Bytes()[:min(buf.Len(), 48)]))
							break
						}
						if v, bogus := f.Headers[""]; bogus {
							rc.Violate("C17", "context-serialised-badly", "protocol.go", fmt.Sprintf("the header block written for a context under concurrent use holds an entry with an empty name (value %q): size and content were taken at different moments", v))
						}
						op.snapshot = f.Headers
						hist = append(hist, op)
					case k == 5: // snapshot
						op := ctxOp{client: t, kind: "all"}
						seq++
						op.call = seq
						op.snapshot = shared.RequestHeaders()
						seq++
						op.ret = seq
						hist = append(hist, op)
					case k == 6: // clone the shared context while others mutate it
						var c frugal.FContext
						if tp.Intn("ops", 2) == 0 {
							c = frugal.Clone(shared)
						} else {
							c = shared.(frugal.FContextWithEphemeralProperties).Clone()
						}
						noteOpid(c, fmt.Sprintf("task%d/clone-of-shared#%d", t, i))
						noteCid(c.CorrelationID(), fmt.Sprintf("task%d/clone-of-shared#%d", t, i))
						noteCid(shared.CorrelationID(), fmt.Sprintf("task%d/shared-after-clone#%d", t, i))
						// the clone is private: writing to it must not show in the original
						c.AddRequestHeader("clone-only", "x")
						c.AddResponseHeader("clone-only", "x")
						if hasReq(shared, "clone-only") {
							rc.Violate("C17", "clone-aliases-original", "request headers", "a header added to a clone of the shared context is visible on the original")
						}
						if hasResp(shared, "clone-only") {
							rc.Violate("C17", "clone-aliases-original", "response headers", "a response header added to a clone is visible on the original")
						}
						// a second clone, taken now, is a sibling of the first: it must not see what the first one got
						sib := shared.(frugal.FContextWithEphemeralProperties).Clone()
						noteOpid(sib, fmt.Sprintf("task%d/sibling-clone-of-shared#%d", t, i))
						c.AddResponseHeader("first-clone-only", "y")
						if hasResp(sib, "first-clone-only") || hasResp(shared, "first-clone-only") {
							rc.Violate("C17", "clone-aliases-original", "response headers of sibling clones", "a response header added to one clone is visible in a sibling clone or in the original")
						}
					case k == 7: // clone independence on a private context (no concurrent writer: exact)
						private.AddRequestHeader(fmt.Sprintf("h%d", i), fmt.Sprintf("x%d", i))
						private.AddResponseHeader(fmt.Sprintf("r%d", i), "y")
						private.SetTimeout(time.Duration(1+tp.Intn("ops", 5000)) * time.Millisecond)
						if k := tp.Intn("oddtmo", 8); k >= 4 {
							// whatever timeout the original reports - zero, negative, below the wire's resolution - its clone reports too
							private.SetTimeout([]time.Duration{0, -time.Second, 500 * time.Microsecond, -5 * time.Millisecond}[k-4])
							rc.Sim.Count("probe:clone-of-a-context-with-a-non-positive-timeout")
						}
						pe := private.(frugal.FContextWithEphemeralProperties)
						pe.AddEphemeralProperty(fmt.Sprintf("e%d", i), i)
						cl := pe.Clone()
						noteOpid(cl, fmt.Sprintf("task%d/clone-of-private#%d", t, i))
						a, b := private.RequestHeaders(), cl.RequestHeaders()
						delete(a, "_opid")
						delete(b, "_opid")
						if !reflect.DeepEqual(a, b) || !reflect.DeepEqual(private.ResponseHeaders(), cl.ResponseHeaders()) ||
							private.Timeout() != cl.Timeout() || !reflect.DeepEqual(pe.EphemeralProperties(), cl.EphemeralProperties()) || private.CorrelationID() != cl.CorrelationID() {
							rc.Violate("C17", "clone-not-equal", "context.go", fmt.Sprintf("original %v/%v/%v, clone %v/%v/%v", a, private.ResponseHeaders(), private.Timeout(), b, cl.ResponseHeaders(), cl.Timeout()))
						}
						oc, oo := fmt.Sprintf("only-clone-%d", i), fmt.Sprintf("only-orig-%d", i)
						var cl2 frugal.FContextWithEphemeralProperties
						if tp.Intn("ops", 3) == 0 {
							cl2 = cl.Clone() // a clone of the clone, taken before anything is written
							noteOpid(cl2, fmt.Sprintf("task%d/clone-of-clone#%d", t, i))
						}
						mutClone := func() {
							cl.AddRequestHeader(oc, "1")
							cl.AddResponseHeader(oc, "1")
							cl.AddEphemeralProperty(oc, 1)
							cl.SetTimeout(9999 * time.Millisecond)
						}
						mutOrig := func() {
							private.AddRequestHeader(oo, "1")
							private.AddResponseHeader(oo, "1")
							pe.AddEphemeralProperty(oo, 1)
						}
						// either side may be the first to write after the clone
						if tp.Intn("ops", 2) == 0 {
							mutOrig()
							if _, leaked := cl.EphemeralProperty(oo); leaked {
								rc.Violate("C17", "clone-aliases-original", "ephemeral properties", "a property added to the original after Clone() is visible in the untouched clone")
							}
							if _, leaked := cl.RequestHeader(oo); leaked {
								rc.Violate("C17", "clone-aliases-original", "request headers", "a header added to the original after Clone() is visible in the untouched clone")
							}
							mutClone()
						} else {
							mutClone()
							mutOrig()
						}
						if cl2 != nil {
							_, a := cl2.EphemeralProperty(oo)
							_, b := cl2.EphemeralProperty(oc)
							_, c := cl2.RequestHeader(oo)
							_, d := cl2.ResponseHeader(oc)
							if a || b || c || d {
								rc.Violate("C17", "clone-aliases-original", "clone of clone", fmt.Sprintf("changes made after cloning reach a clone of the clone: %v %v %v %v", a, b, c, d))
							}
						}
						o1 := hasReq(private, oc)
						_, o2 := pe.EphemeralProperty(oc)
						o3 := hasResp(private, oc)
						o1 = o1 || o3
						c1 := hasReq(cl, oo)
						c2 := hasResp(cl, oo)
						_, c3 := cl.EphemeralProperty(oo)
						if o1 || o2 || c1 || c2 || c3 || private.Timeout() == 9999*time.Millisecond {
							rc.Violate("C17", "clone-aliases-original", "private", fmt.Sprintf("changes leak between original and clone: %v %v %v %v %v", o1, o2, c1, c2, c3))
						}
					case k == 8: // a context received from the wire
						h := map[string]string{"_opid": fmt.Sprint(900000 + t*100 + i), "_cid": "w", "k0": "wire"}
						body := EncodeBody(h, nil)
						// the same protocol object goes on to read the next request of its connection while the first
						// request's context is still in use (a handler that keeps it, a slow handler)
						h2 := map[string]string{"_opid": fmt.Sprint(950000 + t*100 + i), "_cid": "w2", "k0": "wire2", "only2": "x", "_timeout": "777"}
						body = append(body, EncodeBody(h2, nil)...)
						in := pf.GetProtocol(&thrift.TMemoryBuffer{Buffer: bytes.NewBuffer(body)})
						rctx, err := in.ReadRequestHeader()
						if err != nil {
							rc.Violate("INFRA", "read-request-header", "ctx", err.Error())
							break
						}
						before := rctx.RequestHeaders()
						if rctx2, err2 := in.ReadRequestHeader(); err2 == nil {
							noteOpid(rctx2, fmt.Sprintf("task%d/received-second#%d", t, i))
							if after := rctx.RequestHeaders(); !reflect.DeepEqual(before, after) || rctx.CorrelationID() != "w" {
								rc.Violate("C17", "received-context-changed-by-next-request", "protocol.go", fmt.Sprintf("a context read off the wire had headers %v; after the same protocol read the next request it has %v", before, after))
							}
							rctx2.AddRequestHeader("second-only", "1")
							if hasReq(rctx, "second-only") {
								rc.Violate("C17", "received-context-changed-by-next-request", "protocol.go shared map", "a header added to the second received context shows on the first")
							}
						} else {
							rc.Violate("INFRA", "read-request-header", "ctx second", err2.Error())
						}
						noteOpid(rctx, fmt.Sprintf("task%d/received#%d", t, i))
						if v, _ := rctx.ResponseHeader("_opid"); v != h["_opid"] {
							rc.Violate("C17", "received-context-lost-request-opid", "protocol.go", v)
						}
					case k == 9: // new contexts in a burst
						{
							w := plainCtx{frugal.NewFContext("w")}
							noteOpid(w, fmt.Sprintf("task%d/wrapped#%d", t, i))
							w.AddRequestHeader("wk", "wv")
							w.AddRequestHeader("_trace", "tv")
							w.SetTimeout(1234 * time.Millisecond)
							wc := frugal.Clone(w)
							if v, _ := wc.RequestHeader("_trace"); v != "tv" || wc.Timeout() != 1234*time.Millisecond || wc.CorrelationID() != w.CorrelationID() {
								rc.Violate("C17", "clone-not-equal", "Clone(ctx) of a plain FContext", fmt.Sprintf("clone has _trace=%q timeout=%v cid=%q; original _trace=tv timeout=1.234s cid=%q", v, wc.Timeout(), wc.CorrelationID(), w.CorrelationID()))
							}
							noteOpid(wc, fmt.Sprintf("task%d/clone-of-wrapped#%d", t, i))
							if v, _ := wc.RequestHeader("wk"); v != "wv" {
								rc.Violate("C17", "clone-not-equal", "Clone(ctx) of a plain FContext", "header not copied")
							}
							wc.AddRequestHeader("only-clone", "1")
							w.AddResponseHeader("only-orig", "1")
							_, a := w.RequestHeader("only-clone")
							_, b := wc.ResponseHeader("only-orig")
							if a || b {
								rc.Violate("C17", "clone-aliases-original", "Clone(ctx) of a plain FContext", fmt.Sprintf("%v %v", a, b))
							}
						}
						if tp.Intn("usedctx", 4) == 3 {
							// the private context has been used for a call on a registry-backed transport and is kept (for a
							// retry, for the next call): whatever op id it carries afterwards is still its own alone
							rc.Fault("context-kept-after-a-completed-call")
							before, _ := private.RequestHeader("_opid")
							frugal.SimCompletedCall(private)
							if after, _ := private.RequestHeader("_opid"); after != before {
								noteOpid(private, fmt.Sprintf("task%d/private-after-a-call#%d", t, i))
							}
						}
						for j := 0; j < 3; j++ {
							noteOpid(frugal.NewFContext(""), fmt.Sprintf("task%d/new#%d.%d", t, i, j))
						}
						shared.AddResponseHeader(fmt.Sprintf("r%d", t), "z")
						shared.ResponseHeaders()
						setTimeout(t, 1000)
						getTimeout(t)
						noteCid(shared.CorrelationID(), fmt.Sprintf("task%d/shared#%d", t, i))
					}
				}
				simrt.Send(siteDone, doneC, t)
			})
		}
		for t := 0; t < nTasks; t++ {
			simrt.Recv(siteDone, doneC)
		}
		finished = true
	})
	s.Run(func() bool { return finished })

	if !finished {
		rc.Violate("C17", "context-operations-stuck", "context.go", "tasks did not finish")
	} else if len(hist) <= 60 {
		var ops []porcupine.Operation
		for _, o := range hist {
			out := ctxOut{val: o.val, ok: o.ok}
			if o.kind == "all" || o.kind == "eall" {
				out.snap = snapString(o.snapshot)
			}
			ops = append(ops, porcupine.Operation{ClientId: o.client, Input: ctxIn{o.kind, o.key, o.val}, Call: o.call, Output: out, Return: o.ret})
		}
		if res := porcupine.CheckOperationsTimeout(ctxModel, ops, 5*time.Second); res == porcupine.Illegal {
			var sb strings.Builder
			for _, o := range hist {
				fmt.Fprintf(&sb, "[t%d %s %s=%s ok=%v snap=%s @%d-%d] ", o.client, o.kind, o.key, o.val, o.ok, snapString(o.snapshot), o.call, o.ret)
			}
			rc.Violate("C17", "not-linearizable", "shared context request headers", sb.String())
		} else if res == porcupine.Unknown {
			rc.Probe("linearizability-check-inconclusive")
		}
		rc.Sim.Count("probe:linearizability-histories-checked")
	}
	s.Shutdown()
}
