package harness

import (
	"encoding/binary"
	"fmt"
	"io"
	"reflect"
	"sort"
	"strconv"
	"strings"
	"time"

	frugal "github.com/Workiva/frugal/lib/go"
	"github.com/apache/thrift/lib/go/thrift"
	"verif/harness/gen/simbase"
	"verif/harness/gen/simsvc"
	"verif/simrt"
)

// pubsub harness (DESIGN.md §3 C07): generated publisher and subscriber over
// the real NATS and STOMP scope transports (real nats.go / go-stomp clients,
// simulated brokers). A tape-generated history of valid publishes, malformed
// messages injected by the broker, foreign-topic publishes and one
// Unsubscribe.

type psMsg struct {
	id           int64
	phase        string // settled | inflight | post
	item         *simsvc.Item
	hdr          map[string]string
	cid          string
	published    bool
	pubErr       error
	got          int
	gotItem      *simsvc.Item
	gotHdr       map[string]string
	gotCid       string
	gotOpid      string
	pubOpid      string
	timeout      time.Duration
	gotTimeout   time.Duration
	startStep    int
	order        int
	mwPub, mwSub []string
}

func init() { Register("pubsub", pubsubHarness) }

func pubsubHarness(rc *RunCtx) {
	tp := rc.Tape
	s := rc.NewSim(rc.Scale(60000, 200000), 10*time.Minute)
	kind := []string{"nats", "stomp"}[tp.Intn("cfg", 2)]
	if v := rc.Params["broker"]; v != "" {
		kind = v
	}
	proto := []string{"binary", "compact", "json"}[tp.Intn("cfg", 3)]
	workers := 1 + tp.Intn("cfg", 4)
	if kind == "stomp" {
		workers = 1
	}
	user := []string{"alice", "Bob", "x-1"}[tp.Intn("cfg", 3)]
	rc.Sample["broker"], rc.Sample["protocol"], rc.Sample["workers"], rc.Sample["user"] = kind, proto, workers, user
	rc.Nontrivial = true
	key := kind + "/" + proto
	pf := frugal.NewFProtocolFactory(protoFactory(proto))

	msgs := map[int64]*psMsg{}
	var order []*psMsg
	handled := 0
	var foreignSeen []string
	unsubReturnedStep := 0
	var noteGot []string

	mkMW := func(name string, side string) frugal.ServiceMiddleware {
		return func(next frugal.InvocationHandler) frugal.InvocationHandler {
			return func(svc reflect.Value, method reflect.Method, args frugal.Arguments) frugal.Results {
				var m *psMsg
				for _, a := range args {
					if it, ok := a.(*simsvc.Item); ok && it != nil {
						m = msgs[it.ID]
					}
				}
				if m != nil {
					if side == "pub" {
						m.mwPub = append(m.mwPub, "enter "+name)
					} else {
						m.mwSub = append(m.mwSub, "enter "+name)
					}
				}
				res := next(svc, method, args)
				if m != nil {
					if side == "pub" {
						m.mwPub = append(m.mwPub, "exit "+name)
					} else {
						m.mwSub = append(m.mwSub, "exit "+name)
					}
				}
				return res
			}
		}
	}
	nProv, nPub, nSub := 0, 0, 0
	if rc.Prop == "C16" || tp.Intn("cfg", 3) == 0 {
		nProv, nPub, nSub = tp.Intn("cfg", 3), tp.Intn("cfg", 3), tp.Intn("cfg", 3)
	}
	var provMW, pubMW, subMW []frugal.ServiceMiddleware
	var provN, pubN, subN []string
	for i := 0; i < nProv; i++ {
		// the provider list is shared by publisher and subscriber
		n := fmt.Sprintf("prov%d", i)
		provN = append(provN, n)
		provMW = append(provMW, mkMWBoth(msgs, n))
	}
	for i := 0; i < nPub; i++ {
		n := fmt.Sprintf("pub%d", i)
		pubN = append(pubN, n)
		pubMW = append(pubMW, mkMW(n, "pub"))
	}
	for i := 0; i < nSub; i++ {
		n := fmt.Sprintf("sub%d", i)
		subN = append(subN, n)
		subMW = append(subMW, mkMW(n, "sub"))
	}
	rc.Sample["middleware"] = fmt.Sprintf("provider=%d publisher=%d subscriber=%d", nProv, nPub, nSub)

	// C12: publish size limits
	stompLimit := 0
	if rc.Prop == "C12" && kind == "stomp" {
		stompLimit = []int{0, 200, 512, 4096}[tp.Intn("cfg", 4)]
		if tp.Intn("tinylimit", 8) == 1 {
			// a limit below the size of the frame prefix: every publish is too large for it
			stompLimit = 1 + tp.Intn("tinylimit", 5)
			rc.Fault("stomp-publish-limit-of-a-few-bytes")
		}
		rc.Sample["stomp_max_publish_size"] = stompLimit
	}
	type sizedPub struct {
		name      string
		size      int
		limit     int
		err       error
		onWire    int
		delivered int
	}
	var sized []*sizedPub
	wireNotes := map[string]int{}

	var nb *SimBroker
	var sb *SimStomp
	finished := false
	var infra string
	subject := ""
	inject := func(body []byte) {}

	handler := func(fctx frugal.FContext, it *simsvc.Item) {
		handled++
		m := msgs[it.ID]
		if m == nil {
			foreignSeen = append(foreignSeen, fmt.Sprintf("id=%d", it.ID))
			return
		}
		m.got++
		if m.got == 1 {
			m.gotItem, m.gotHdr, m.gotCid = it, fctx.RequestHeaders(), fctx.CorrelationID()
			m.gotOpid, _ = fctx.RequestHeader("_opid")
			m.gotTimeout = fctx.Timeout()
			m.startStep = s.Step
			m.order = handled
		}
		if d := time.Duration(it.Ts) * time.Millisecond; d > 0 && d <= 5*time.Millisecond {
			site := simrt.HarnessSite("pubsub.handler-sleep")
			simrt.Block(site)
			time.Sleep(d)
			simrt.Yield(site)
		}
	}

	s.GoRoot("main", "main", func() {
		var pubF frugal.FPublisherTransportFactory
		var subF frugal.FSubscriberTransportFactory
		switch kind {
		case "nats":
			nb = NewSimBroker(rc)
			pc, err := nb.Connect("pub")
			if err != nil {
				infra = err.Error()
				finished = true
				return
			}
			sc, err := nb.Connect("sub")
			if err != nil {
				infra = err.Error()
				finished = true
				return
			}
			pubF = frugal.NewFNatsPublisherTransportFactory(pc)
			subF = frugal.NewFNatsSubscriberFactoryBuilder(sc).WithWorkerCount(uint(workers)).Build()
			subject = "frugal.sim." + user + ".Events.ItemCreated"
			inject = func(body []byte) { nb.Route(subject, "", nil, body) }
		case "stomp":
			sb = NewSimStomp(rc)
			if tp.Intn("slowread", 4) == 3 {
				// the broker reads the publisher's connection slowly: the library's writer blocks inside a frame
				// while the application goes on publishing (go-stomp queues up to 20 frames behind it)
				var ds []time.Duration
				for i := 0; i < 16; i++ {
					ds = append(ds, []time.Duration{0, 0, time.Millisecond, 3 * time.Millisecond}[tp.Intn("slowread", 4)])
				}
				sb.SlowReadsNext = ds
				rc.Fault("broker-reads-publisher-connection-slowly")
			}
			pc, err := sb.Connect()
			if err != nil {
				infra = err.Error()
				finished = true
				return
			}
			sc, err := sb.Connect()
			if err != nil {
				infra = err.Error()
				finished = true
				return
			}
			pubF = frugal.NewFStompPublisherTransportFactoryBuilder(pc).WithMaxPublishSize(stompLimit).Build()
			subF = frugal.NewFStompSubscriberTransportFactoryBuilder(sc).Build()
			subject = "/topic/frugal.sim." + user + ".Events.ItemCreated"
			inject = func(body []byte) { sb.Route(subject, body) }
		}
		provider := frugal.NewFScopeProvider(pubF, subF, pf, provMW...)
		pub := simsvc.NewEventsPublisher(provider, pubMW...)
		if err := pub.Open(); err != nil {
			infra = "publisher open: " + err.Error()
			finished = true
			return
		}
		otherPub := simsvc.NewOtherPublisher(provider)
		otherPub.Open()
		sub := simsvc.NewEventsSubscriber(provider, subMW...)
		subscription, err := sub.SubscribeItemCreated(user, handler)
		if err != nil {
			infra = "subscribe: " + err.Error()
			finished = true
			return
		}
		// a second subscription (other operation, same user): must only see Notes
		_, err = sub.SubscribeNote(user, func(fctx frugal.FContext, b *simbase.Blob) {
			noteGot = append(noteGot, b.Name)
			for _, sp := range sized {
				if sp.name == b.Name {
					sp.delivered++
				}
			}
		})
		if err != nil {
			infra = "subscribe note: " + err.Error()
			finished = true
			return
		}
		settle(10 * time.Millisecond)
		if rc.Prop == "C12" {
			// count what reaches the broker per note name
			countWire := func(body []byte) {
				if f, err := DecodeFrame(body); err == nil {
					wireNotes[f.Headers["note"]]++
				}
			}
			if nb != nil {
				nb.OnPublish = func(c *BrokerConn, subject, reply string, hdr, data []byte) bool { countWire(data); return false }
			} else {
				sb.OnSend = func(dest string, body []byte) bool { countWire(body); return false }
			}
			limit := stompLimit
			if kind == "nats" {
				limit = 1024 * 1024
			}
			nSized := 1 + tp.Intn("size", 4)
			if kind == "nats" && tp.Intn("size", 4) != 0 {
				nSized = 0 // megabyte publishes are expensive
			}
			for i := 0; i < nSized && limit > 0; i++ {
				d := []int{-2, -1, 0, 1, 2, 300}[tp.Intn("size", 6)]
				sp := &sizedPub{name: fmt.Sprintf("note-sized-%d", i), limit: limit}
				ctx := frugal.NewFContext("c12")
				ctx.AddRequestHeader("note", sp.name)
				hdr := ctx.RequestHeaders()
				hdr["_topic_user"] = user
				frameSize := func(n int) int {
					return len(EncodeFrame(hdr, rawMessage(proto, "Note", thrift.CALL, []rawField{
						{1, thrift.STRING, sp.name}, {2, thrift.STRING, []byte(strings.Repeat("d", n))}, {3, thrift.LIST, rawList{elem: thrift.I32}}})))
				}
				n := 0
				for k := 0; k < 8 && frameSize(n) != limit+d; k++ {
					n += limit + d - frameSize(n)
					if n < 0 {
						n = 0
						break
					}
				}
				sp.size = frameSize(n)
				rc.Fault(fmt.Sprintf("publish-at-limit%+d", sp.size-limit))
				sized = append(sized, sp) // before publishing: delivery may happen while Publish is still returning
				sp.err = pub.PublishNote(ctx, user, &simbase.Blob{Name: sp.name, Data: []byte(strings.Repeat("d", n)), Nums: []int32{}})
			}
			// the same publisher keeps working afterwards
			ctx := frugal.NewFContext("c12")
			ctx.AddRequestHeader("note", "note-after")
			sp := &sizedPub{name: "note-after", size: 1, limit: limit}
			if limit > 0 && limit < 200 {
				// (limits of a few bytes: what counts is the real framed size, and this small note is over it)
				hdr := ctx.RequestHeaders()
				hdr["_topic_user"] = user
				sp.size = len(EncodeFrame(hdr, rawMessage(proto, "Note", thrift.CALL, []rawField{
					{1, thrift.STRING, sp.name}, {2, thrift.STRING, []byte{1}}, {3, thrift.LIST, rawList{elem: thrift.I32}}})))
			}
			sized = append(sized, sp)
			sp.err = pub.PublishNote(ctx, user, &simbase.Blob{Name: "note-after", Data: []byte{1}, Nums: []int32{}})
			settle(2 * time.Second)
			rc.Sample["notes_delivered"] = fmt.Sprint(noteGot)
			// the limits would reject the ordinary C07 workload: this run ends here
			finished = true
			return
		}

		// raw topics: transports used directly with adversarial topic names; each
		// subscriber must get exactly what was published on ITS topic
		type rawSub struct {
			topic string
			got   []string
		}
		var rawSubs []*rawSub
		var rawWant = map[string][]string{}
		rawTopicsCheck := func() {}
		if tp.Intn("rawtopic", 4) == 3 {
			pool := []string{"audit", "frugal.audit", "frugal", "frugal.frugal", "Audit", "a.b", "frugal.a.b", "x-1.y_2", "frugal.x-1.y_2", "sim." + user + ".Events", "sim." + user + ".Events.ItemCreated.x"}
			first := tp.Intn("rawtopic", len(pool))
			n := 2 + tp.Intn("rawtopic", 2)
			var topics []string
			for i := 0; i < n; i++ {
				topics = append(topics, pool[(first+i)%len(pool)])
			}
			rc.Fault("raw-topic-isolation")
			rc.Sample["raw_topics"] = fmt.Sprint(topics)
			for _, t := range topics[:n-1] { // the last topic has a publisher only
				rs := &rawSub{topic: t}
				rawSubs = append(rawSubs, rs)
				st := subF.GetTransport()
				if err := st.Subscribe(t, func(tr thrift.TTransport) error {
					b, _ := io.ReadAll(tr)
					rs.got = append(rs.got, string(b))
					return nil
				}); err != nil {
					infra = "raw subscribe " + t + ": " + err.Error()
				}
			}
			settle(10 * time.Millisecond)
			pt := pubF.GetTransport()
			if err := pt.Open(); err != nil {
				infra = "raw publisher open: " + err.Error()
			}
			for round := 0; round < 2; round++ {
				for _, t := range topics {
					body := fmt.Sprintf("raw|%s|%d", t, round)
					fr := make([]byte, 4, 4+len(body))
					binary.BigEndian.PutUint32(fr, uint32(len(body)))
					if err := pt.Publish(t, append(fr, body...)); err != nil {
						rc.Violate("C07", "publish-failed", key+" raw", fmt.Sprintf("raw publish on %q: %v", t, err))
					}
					rawWant[t] = append(rawWant[t], body)
				}
			}
			rawTopicsCheck = func() {
				for _, rs := range rawSubs {
					got := append([]string(nil), rs.got...)
					want := append([]string(nil), rawWant[rs.topic]...)
					if workers > 1 {
						sort.Strings(got)
						sort.Strings(want)
					}
					if !reflect.DeepEqual(got, want) {
						rc.Violate("C07", "topic-isolation", key+" raw", fmt.Sprintf("subscriber of topic %q received %q, published on that topic: %q (topics in play %v)", rs.topic, got, want, topics))
					}
				}
			}
		}
		// a scope with two prefix variables: (tenant, app) and (app, tenant) are different topics, and what the
		// publisher's middleware sees in positions 1 and 2 is what the caller passed there
		regionalCheck := func() {}
		if tp.Intn("regional", 4) == 3 {
			rc.Fault("scope-with-two-prefix-variables")
			ten, app := []string{"acme", "zeta", "a.b"}[tp.Intn("regional", 3)], []string{"mail", "billing", "x-1"}[tp.Intn("regional", 3)]
			var sawArgs []string
			argMW := func(next frugal.InvocationHandler) frugal.InvocationHandler {
				return func(svc reflect.Value, method reflect.Method, args frugal.Arguments) frugal.Results {
					if len(args) >= 4 {
						sawArgs = append(sawArgs, fmt.Sprintf("%v/%v", args[1], args[2]))
					}
					return next(svc, method, args)
				}
			}
			rpub := simsvc.NewRegionalPublisher(provider, argMW)
			if err := rpub.Open(); err != nil {
				infra = "regional publisher open: " + err.Error()
			}
			rsub := simsvc.NewRegionalSubscriber(provider)
			var gotStraight, gotSwapped []int64
			var hdrStraight []string
			if _, err := rsub.SubscribeMoved(ten, app, func(fctx frugal.FContext, it *simsvc.Item) {
				gotStraight = append(gotStraight, it.ID)
				a, _ := fctx.RequestHeader("_topic_tenant")
				b, _ := fctx.RequestHeader("_topic_app")
				hdrStraight = append(hdrStraight, a+"/"+b)
			}); err != nil {
				infra = "regional subscribe: " + err.Error()
			}
			if _, err := rsub.SubscribeMoved(app, ten, func(fctx frugal.FContext, it *simsvc.Item) { gotSwapped = append(gotSwapped, it.ID) }); err != nil {
				infra = "regional subscribe (swapped): " + err.Error()
			}
			settle(10 * time.Millisecond)
			for i := int64(0); i < 2; i++ {
				if err := rpub.PublishMoved(frugal.NewFContext("r"), ten, app, genItem(tp, 70000+i)); err != nil {
					rc.Violate("C07", "publish-failed", key+" regional", err.Error())
				}
			}
			regionalCheck = func() {
				sort.Slice(gotStraight, func(i, j int) bool { return gotStraight[i] < gotStraight[j] }) // (order is a single-worker matter, checked elsewhere)
				if fmt.Sprint(gotStraight) != "[70000 70001]" || len(gotSwapped) != 0 {
					rc.Violate("C07", "topic-isolation", key+" two prefix variables", fmt.Sprintf("published Moved(%q, %q) twice: the subscriber of (%q, %q) got %v, the subscriber of (%q, %q) got %v", ten, app, ten, app, gotStraight, app, ten, gotSwapped))
				}
				for _, h := range hdrStraight {
					if h != ten+"/"+app {
						rc.Violate("C09", "pubsub-context-differs", key+" topic variables", fmt.Sprintf("subscriber of (%q, %q) saw _topic_tenant/_topic_app = %s", ten, app, h))
					}
				}
				for _, a := range sawArgs {
					if a != ten+"/"+app {
						rc.Violate("C16", "publisher-middleware-arguments", key, fmt.Sprintf("PublishMoved(ctx, %q, %q, item): the publisher's middleware saw arguments 1 and 2 as %s", ten, app, a))
					}
				}
				if len(sawArgs) != 2 {
					rc.Violate("C16", "publisher-middleware-trace", key+" regional", fmt.Sprintf("two publishes, middleware invoked %d times", len(sawArgs)))
				}
			}
		}
		nPre := 1 + tp.Intn("ops", rc.Scale(10, 30))
		burst := tp.Intn("burst", 10) == 9
		if burst {
			// a backlog deeper than any internal queue: the first handler is slow
			// while the publisher keeps going (order and count must survive overflow paths)
			nPre = 66 + tp.Intn("burst", rc.Scale(80, 300))
			rc.Fault("publish-burst-over-slow-handler")
			if sb != nil {
				sb.Prefetch = 1 // the backlog waits at the broker, as with a prefetch-limited subscription
			}
		}
		nInflight := tp.Intn("ops", rc.Scale(3, 8))
		nPost := 1 + tp.Intn("ops", 3)
		seq := int64(0)
		var lastCtx frugal.FContext
		publish := func(phase string) {
			seq++
			it := genItem(tp, seq)
			it.Ts = simsvc.Stamp(tp.Intn("ops", 8)) // handler duration in ms (<=5 sleeps)
			if burst && phase == "settled" {
				it.Ts = 0
				if seq == 1 || tp.Intn("burst", 40) == 0 {
					it.Ts = 5
				}
			}
			m := &psMsg{id: seq, phase: phase, item: it, hdr: map[string]string{}, cid: "cid-" + genString(tp, "hdr", 5)}
			for i, n := 0, tp.Intn("hdr", 4); i < n; i++ {
				m.hdr[[]string{"h", "h", "h", "_", "_trace", "H", "__", "_opid2"}[tp.Intn("hdrname", 8)]+genString(tp, "hdr", 3)] = genString(tp, "hdr", 8)
			}
			msgs[seq] = m
			order = append(order, m)
			ctx := frugal.NewFContext(m.cid)
			if lastCtx != nil && tp.Intn("reuse", 5) == 4 {
				// the same FContext object publishes again, changed in between
				ctx = lastCtx
				m.cid = ctx.CorrelationID()
				rc.Fault("fcontext-reused-for-another-publish")
			}
			onlyTimeout := ctx == lastCtx && tp.Intn("reuse", 2) == 1
			lastCtx = ctx
			m.timeout = time.Duration(1+tp.Intn("hdr", 90000)) * time.Millisecond
			if k := tp.Intn("tmo0", 8); k >= 5 {
				// a publish has no deadline to keep: zero, sub-millisecond and negative timeouts are just values
				m.timeout = []time.Duration{0, 500 * time.Microsecond, -time.Second}[k-5]
			}
			ctx.SetTimeout(m.timeout)
			m.timeout = ctx.Timeout() // what the publisher's own context reports
			for k, v := range m.hdr {
				if !onlyTimeout {
					ctx.AddRequestHeader(k, v)
				}
			}
			m.hdr = map[string]string{}
			for k, v := range ctx.RequestHeaders() {
				if !strings.HasPrefix(k, "_") {
					m.hdr[k] = v
				}
			}
			m.pubOpid, _ = ctx.RequestHeader("_opid")
			m.pubErr = pub.PublishItemCreated(ctx, user, it)
			m.published = m.pubErr == nil
		}
		noise := func() {
			if tp.Intn("hdronly", 6) == 5 {
				// a frame that ends cleanly after its header block: no Thrift message at all
				rc.Fault("malformed-headers-only-frame")
				inject(EncodeFrame(map[string]string{"_opid": "1", "_cid": "x"}, nil))
				return
			}
			switch tp.Intn("ops", 9) {
			case 0:
				rc.Fault("malformed-short-frame")
				inject([]byte{0, 0}[:tp.Intn("ops", 3)])
			case 1:
				rc.Fault("malformed-3-bytes")
				inject([]byte{0, 0, 9})
			case 2:
				rc.Fault("malformed-header-size")
				b := EncodeFrame(map[string]string{"_opid": "1", "_cid": "x"}, []byte("zz"))
				binary.BigEndian.PutUint32(b[5:9], uint32([]int{0x7fffffff, 0xffffffff, len(b), 3}[tp.Intn("ops", 4)]))
				inject(b)
			case 3:
				rc.Fault("wrong-operation-name")
				inject(EncodeFrame(map[string]string{"_opid": "1", "_cid": "x"}, rawMessage(proto, "Bogus", thrift.CALL, []rawField{{1, thrift.I64, int64(777777)}})))
			case 4:
				rc.Fault("undecodable-payload")
				msg := rawMessage(proto, "ItemCreated", thrift.CALL, []rawField{{1, thrift.I64, int64(888888)}})
				inject(EncodeFrame(map[string]string{"_opid": "1", "_cid": "x"}, msg[:len(msg)-2]))
			case 5:
				rc.Fault("foreign-user-topic")
				it := genItem(tp, 10000+seq)
				pub.PublishItemCreated(frugal.NewFContext("f"), user+"2", it)
			case 6:
				rc.Fault("foreign-operation")
				pub.PublishNote(frugal.NewFContext("f"), user, &simbase.Blob{Name: fmt.Sprintf("note%d", seq), Data: []byte{1}, Nums: []int32{}})
			case 7:
				rc.Fault("foreign-scope")
				otherPub.PublishPing(frugal.NewFContext("f"), genItem(tp, 20000+seq))
			case 8:
				rc.Fault("missing-opid-header")
				inject(EncodeFrame(map[string]string{"_cid": "x"}, rawMessage(proto, "ItemCreated", thrift.CALL, []rawField{{1, thrift.I64, int64(999999)}})))
			}
		}
		for i := 0; i < nPre; i++ {
			if !burst && tp.Intn("ops", 3) == 0 {
				noise()
			}
			publish("settled")
		}
		settle(2 * time.Second)
		rawTopicsCheck()
		regionalCheck()
		if nb != nil && tp.Intn("earlypub", 4) == 1 {
			// a subscription is in force once Subscribe has returned: the broker is slow to read the subscriber's
			// connection while a second subscriber (another user) subscribes, and the publisher - another
			// connection - publishes for that user the moment Subscribe is back
			rc.Fault("publish-the-moment-subscribe-returns-over-a-slow-subscriber-connection")
			if bc := nb.Conn(1); bc != nil {
				bc.StallInbound(time.Duration(5+tp.Intn("earlypub", 200)) * time.Millisecond)
			}
			earlyGot := 0
			sub2, err := sub.SubscribeItemCreated(user+"e", func(fctx frugal.FContext, it *simsvc.Item) {
				if it.ID == 30001 {
					earlyGot++
				}
			})
			if err != nil {
				rc.Violate("C07", "subscribe-failed", key, "second subscriber over a slowly read connection: "+err.Error())
			} else {
				perr := pub.PublishItemCreated(frugal.NewFContext("early"), user+"e", genItem(tp, 30001))
				settle(2 * time.Second)
				if perr == nil && earlyGot != 1 {
					rc.Violate("C07", "delivery-count", key+" got="+strconv.Itoa(earlyGot), fmt.Sprintf("a message published (from another connection) right after Subscribe had returned was delivered %d times; the broker was reading the subscriber's connection slowly while it subscribed", earlyGot))
				}
				sub2.Unsubscribe()
			}
		}
		for i := 0; i < nInflight; i++ {
			publish("inflight")
		}
		if nInflight > 0 {
			rc.Probe("unsubscribe-with-messages-in-flight")
		}
		if err := subscription.Unsubscribe(); err != nil {
			rc.Violate("C07", "unsubscribe-failed", key, err.Error())
		}
		unsubReturnedStep = s.Step
		for i := 0; i < nPost; i++ {
			publish("post")
		}
		settle(2 * time.Second)
		finished = true
	})
	s.Run(func() bool {
		return finished && (nb == nil || nb.Pending() == 0) && (sb == nil || sb.Pending() == 0)
	})

	if infra != "" {
		rc.Violate("INFRA", "setup", key, infra)
	} else if !finished {
		rc.Violate("C07", "pubsub-workload-stuck", key, "publish/unsubscribe history did not complete within the horizon")
	} else {
		lastOrder := 0
		seenOpids := map[string]int64{}
		for _, m := range order {
			where := fmt.Sprintf("message %d (%s, %s, workers=%d)", m.id, m.phase, key, workers)
			if !m.published {
				rc.Violate("C07", "publish-failed", key, fmt.Sprintf("%s: %v", where, m.pubErr))
				continue
			}
			switch m.phase {
			case "settled":
				if m.got != 1 {
					rc.Violate("C07", "delivery-count", fmt.Sprintf("%s got=%d", key, min(m.got, 2)), fmt.Sprintf("%s: handler invoked %d times", where, m.got))
					continue
				}
			case "inflight":
				if m.got > 1 {
					rc.Violate("C07", "delivery-count", key+" got=2", fmt.Sprintf("%s: handler invoked %d times", where, m.got))
				}
			case "post":
				if m.got > 0 {
					rc.Violate("C07", "delivered-after-unsubscribe", key, fmt.Sprintf("%s: published after Unsubscribe returned (step %d), handler started at step %d", where, unsubReturnedStep, m.startStep))
				}
			}
			if m.got == 0 {
				continue
			}
			if !valuesEqual(m.item, m.gotItem) {
				rc.Violate("C07", "payload-differs", key, fmt.Sprintf("%s: published %+v, delivered %+v", where, m.item, m.gotItem))
			}
			if workers == 1 {
				if m.order < lastOrder {
					rc.Violate("C07", "out-of-order", key, fmt.Sprintf("%s delivered as #%d after #%d", where, m.order, lastOrder))
				}
				lastOrder = m.order
			}
			// C09 for pub/sub: publisher's headers and cid, fresh op id
			gh := map[string]string{}
			for k, v := range m.gotHdr {
				if !strings.HasPrefix(k, "_") {
					gh[k] = v
				}
			}
			if !reflect.DeepEqual(gh, m.hdr) {
				rc.Violate("C07", "publisher-headers-differ", key, fmt.Sprintf("%s: published with headers %q, subscriber saw %q", where, m.hdr, gh))
			}
			if !reflect.DeepEqual(gh, m.hdr) || m.gotCid != m.cid {
				rc.Violate("C09", "pubsub-context-differs", key, fmt.Sprintf("%s: published headers %q cid %q, subscriber saw %q cid %q", where, m.hdr, m.cid, gh, m.gotCid))
			}
			if m.gotTimeout != m.timeout {
				// (the timeout travels as a request header of the publisher's FContext: C07 names those headers too)
				rc.Violate("C07", "publisher-timeout-differs", key, fmt.Sprintf("%s: published with timeout %v, subscriber context reports %v", where, m.timeout, m.gotTimeout))
				rc.Violate("C09", "pubsub-timeout-differs", key, fmt.Sprintf("%s: published with timeout %v, subscriber context reports %v", where, m.timeout, m.gotTimeout))
			}
			if m.gotOpid == "" || m.gotOpid == m.pubOpid {
				rc.Violate("C09", "pubsub-opid-not-fresh", key, fmt.Sprintf("%s: publisher op id %s, callback op id %q", where, m.pubOpid, m.gotOpid))
			}
			if other, dup := seenOpids[m.gotOpid]; dup {
				rc.Violate("C09", "pubsub-opid-collision", key, fmt.Sprintf("%s and message %d share op id %s", where, other, m.gotOpid))
			}
			seenOpids[m.gotOpid] = m.id
			// C16 for pub/sub
			wantPub := nestNames(append(append([]string{}, pubN...), provN...))
			wantSub := nestNames(append(append([]string{}, subN...), provN...))
			if len(wantPub)+len(m.mwPub) > 0 && !reflect.DeepEqual(wantPub, m.mwPub) {
				rc.Violate("C16", "publisher-middleware-trace", key, fmt.Sprintf("%s: expected %v, recorded %v", where, wantPub, m.mwPub))
			}
			if len(wantSub)+len(m.mwSub) > 0 && !reflect.DeepEqual(wantSub, m.mwSub) {
				rc.Violate("C16", "subscriber-middleware-trace", key, fmt.Sprintf("%s: expected %v, recorded %v", where, wantSub, m.mwSub))
			}
		}
		for _, sp := range sized {
			sp.onWire = wireNotes[sp.name]
			where := fmt.Sprintf("publish %s: framed %d bytes, limit %d (%s)", sp.name, sp.size, sp.limit, key)
			if sp.limit > 0 && sp.size > sp.limit {
				if !isTooLarge(sp.err, frugal.TRANSPORT_EXCEPTION_REQUEST_TOO_LARGE) {
					rc.Violate("C12", "oversize-publish-not-rejected", key, fmt.Sprintf("%s: err=%v", where, sp.err))
				}
				if sp.onWire > 0 || sp.delivered > 0 {
					rc.Violate("C12", "oversize-publish-transmitted", key, fmt.Sprintf("%s: reached the broker %d times, delivered %d times", where, sp.onWire, sp.delivered))
				}
			} else {
				if sp.err != nil {
					rc.Violate("C12", "in-limit-publish-rejected", key, fmt.Sprintf("%s: %v", where, sp.err))
				} else if sp.delivered != 1 {
					rc.Violate("C12", "in-limit-publish-not-delivered", key, fmt.Sprintf("%s: delivered %d times", where, sp.delivered))
				}
			}
		}
		if len(foreignSeen) > 0 {
			rc.Violate("C07", "foreign-message-delivered", key, fmt.Sprintf("handler of %s got messages it never subscribed to: %v", subject, foreignSeen))
		}
		for _, n := range noteGot {
			if !strings.HasPrefix(n, "note") {
				rc.Violate("C07", "foreign-message-delivered", key+" note", "Note subscriber got "+n)
			}
		}
	}
	s.Shutdown()
	if nb != nil {
		nb.Kill()
	}
	if sb != nil {
		sb.Kill()
	}
}

// nestNames: list order [a0,a1,...] composes so that the last is outermost.
func nestNames(list []string) []string {
	var tr []string
	for i := len(list) - 1; i >= 0; i-- {
		tr = append(tr, "enter "+list[i])
	}
	for i := 0; i < len(list); i++ {
		tr = append(tr, "exit "+list[i])
	}
	return tr
}

// mkMWBoth records into both the publisher-side and subscriber-side trace,
// depending on which side invokes it (publisher methods are lower-case).
func mkMWBoth(msgs map[int64]*psMsg, name string) frugal.ServiceMiddleware {
	return func(next frugal.InvocationHandler) frugal.InvocationHandler {
		return func(svc reflect.Value, method reflect.Method, args frugal.Arguments) frugal.Results {
			var m *psMsg
			for _, a := range args {
				if it, ok := a.(*simsvc.Item); ok && it != nil {
					m = msgs[it.ID]
				}
			}
			pubSide := strings.HasPrefix(method.Name, "publish")
			if m != nil {
				if pubSide {
					m.mwPub = append(m.mwPub, "enter "+name)
				} else {
					m.mwSub = append(m.mwSub, "enter "+name)
				}
			}
			res := next(svc, method, args)
			if m != nil {
				if pubSide {
					m.mwPub = append(m.mwPub, "exit "+name)
				} else {
					m.mwSub = append(m.mwSub, "exit "+name)
				}
			}
			return res
		}
	}
}
