package harness

import (
	"encoding/json"
	"flag"
	"fmt"
	"os"
	"strings"
	"testing"
	"time"
)

var (
	fHarness  = flag.String("harness", "", "harness name")
	fProp     = flag.String("prop", "", "property id")
	fBase     = flag.Uint64("base", 1, "VERIF_SEED")
	fFrom     = flag.Int("from", 0, "first run index")
	fTo       = flag.Int("to", 100, "one past the last run index")
	fBudget   = flag.Float64("budget", 0, "wall-clock budget in seconds (0 = none)")
	fOut      = flag.String("out", "", "result file (JSON)")
	fReplay   = flag.String("replay", "", "replay file to run")
	fMinimise = flag.String("minimise", "", "replay file to minimise (writes -out)")
	fReruns   = flag.Int("reruns", 2000, "minimisation budget")
	fParams   = flag.String("params", "", "k=v,k=v harness parameters")
	fTrace    = flag.Bool("trace", false, "print the trace of a replay")
	fIsolate  = flag.Bool("isolate", false, "batch mode: run every simulated run in its own child process (fallback when process-global state leaks between runs)")
	fSingle   = flag.Bool("single", false, "run exactly one run (index -from) and write its RunResult to -out")
	fDump     = flag.Bool("dumplog", false, "batch mode: print one line per run (seed, fingerprint, steps) for determinism tests")
)

func params() map[string]string {
	m := map[string]string{}
	for _, kv := range strings.Split(*fParams, ",") {
		if i := strings.Index(kv, "="); i > 0 {
			m[kv[:i]] = kv[i+1:]
		}
	}
	return m
}

// TestWorker is the single entry point of the harness binary.
func TestWorker(t *testing.T) {
	switch {
	case *fReplay != "":
		rf, err := LoadReplay(*fReplay)
		if err != nil {
			fmt.Println("INFRA cannot load replay:", err)
			os.Exit(2)
		}
		ok, r := Replay(t, rf, true)
		if *fTrace {
			for _, l := range r.Trace {
				fmt.Println(l)
			}
		}
		out := map[string]any{"reproduced": ok, "class": rf.Class, "key": rf.Key, "violations": r.Violations, "fingerprint": r.Fingerprint, "steps": r.Steps, "infra": r.Infra, "tape": r.Tape}
		b, _ := json.Marshal(out)
		fmt.Println("REPLAY-RESULT " + string(b))
		if *fOut != "" {
			WriteJSON(*fOut, out)
		}
	case *fMinimise != "":
		rf, err := LoadReplay(*fMinimise)
		if err != nil {
			fmt.Println("INFRA cannot load replay:", err)
			os.Exit(2)
		}
		IsolateReplays = *fIsolate
		m := Minimise(t, rf, *fReruns)
		if err := WriteJSON(*fOut, m); err != nil {
			fmt.Println("INFRA", err)
			os.Exit(2)
		}
	case *fDump:
		for i := *fFrom; i < *fTo; i++ {
			seed := *fBase<<32 + uint64(i)
			r := RunOne(t, *fHarness, *fProp, params(), newTape(seed), true)
			fmt.Printf("RUN seed=%d fp=%016x steps=%d viol=%d infra=%q\n", seed, r.Fingerprint, r.Steps, len(r.Violations), r.Infra)
			for _, l := range r.Trace {
				fmt.Println("  " + l)
			}
			for _, v := range r.Violations {
				fmt.Printf("  V %s | %s\n", v.Class, v.Key)
			}
		}
	case *fSingle:
		seed := *fBase<<32 + uint64(*fFrom)
		r := RunOne(t, *fHarness, *fProp, params(), newTape(seed), false)
		r.SitesByName = map[string]int{}
		for k, v := range r.Sites {
			r.SitesByName[siteName(k)] += v
		}
		for k := range r.Switches {
			r.SwitchList = append(r.SwitchList, [2]int{k[0], k[1]})
		}
		if err := WriteJSON(*fOut, r); err != nil {
			fmt.Println("INFRA", err)
			os.Exit(2)
		}
	default:
		if *fIsolate {
			isolateArgs = []string{"-harness", *fHarness, "-prop", *fProp, "-base", fmt.Sprint(*fBase), "-params", *fParams}
		}
		br := RunBatch(t, *fHarness, *fProp, params(), *fBase, *fFrom, *fTo, time.Duration(*fBudget*float64(time.Second)))
		if *fOut != "" {
			if err := WriteJSON(*fOut, br); err != nil {
				fmt.Println("INFRA", err)
				os.Exit(2)
			}
		} else {
			b, _ := json.Marshal(br)
			fmt.Println(string(b))
		}
	}
}
