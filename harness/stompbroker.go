package harness

import (
	"fmt"
	"net"
	"strconv"
	"sync"
	"time"

	"github.com/go-stomp/stomp"
	"github.com/go-stomp/stomp/frame"
	"verif/simrt"
)

// SimStomp is the simulated STOMP 1.2 broker the real go-stomp client talks
// to over an in-bubble net.Pipe: CONNECT->CONNECTED, SUBSCRIBE, UNSUBSCRIBE
// (+RECEIPT), SEND->MESSAGE (with ack, message-id, subscription), ACK,
// DISCONNECT; heart-beats negotiated off. Like SimBroker, inbound frames take
// effect in the order read, one scheduler event each, and each connection has
// one outbound FIFO.
type SimStomp struct {
	rc    *RunCtx
	s     *simrt.Sim
	mu    sync.Mutex
	conns []*stompConn
	subs  []*stompSub
	msgN  int
	// OmitAckNext: that many of the next MESSAGE frames go out without their `ack` header
	OmitAckNext int
	Acks        []string
	OnSend      func(destination string, body []byte) bool
	OnDeliver   func(destination string, body []byte)
	// Prefetch > 0: at most that many unacknowledged MESSAGEs per connection (what real brokers call the
	// prefetch limit); the rest waits at the broker. Keeps a backlog out of go-stomp's own goroutines, whose
	// native select between inbound frames and outbound requests would otherwise decide by runtime random.
	Prefetch int
	// SlowReadsNext, if set, makes the broker a slow reader of the NEXT connection made: before each read of
	// that connection's socket it waits the next delay of this (tape-drawn, cyclic) list in simulated time. The
	// client's writer then blocks inside a frame and what the application hands to the library queues up behind it.
	SlowReadsNext []time.Duration
}

// gatedConn is the broker's end of a connection it reads slowly.
type gatedConn struct {
	net.Conn
	b      *SimStomp
	id     int
	delays []time.Duration
	n      int
	tokens chan struct{}
}

func (g *gatedConn) Read(p []byte) (int, error) {
	d := g.delays[g.n%len(g.delays)]
	g.n++
	if d > 0 {
		g.b.s.AddEvent(fmt.Sprintf("stomp:c%02d:readgate", g.id), d, func() {
			select {
			case g.tokens <- struct{}{}:
			default:
			}
		})
		<-g.tokens
	}
	return g.Conn.Read(p)
}

type stompSub struct {
	c    *stompConn
	id   string
	dest string
}

type stompConn struct {
	id          int
	b           *SimStomp
	srv         net.Conn
	inQ         []*frame.Frame
	outQ        []*frame.Frame
	inEv, outEv bool
	wch         chan *frame.Frame
	closed      bool
	unacked     int
	held        []*frame.Frame
}

func NewSimStomp(rc *RunCtx) *SimStomp { return &SimStomp{rc: rc, s: rc.Sim} }

// Connect returns a real go-stomp connection; call from a simulation task.
func (b *SimStomp) Connect() (*stomp.Conn, error) {
	cli, srv := net.Pipe()
	b.mu.Lock()
	c := &stompConn{id: len(b.conns) + 1, b: b, srv: srv, wch: make(chan *frame.Frame, 4096)}
	if len(b.SlowReadsNext) > 0 {
		c.srv = &gatedConn{Conn: srv, b: b, id: c.id, delays: b.SlowReadsNext, tokens: make(chan struct{}, 1)}
		b.SlowReadsNext = nil
	}
	b.conns = append(b.conns, c)
	b.mu.Unlock()
	go c.writer()
	go c.reader()
	site := simrt.HarnessSite("stomp.Connect")
	simrt.Block(site)
	conn, err := stomp.Connect(cli, stomp.ConnOpt.HeartBeat(0, 0), stomp.ConnOpt.AcceptVersion(stomp.V12))
	simrt.Yield(site)
	return conn, err
}

func (c *stompConn) writer() {
	w := frame.NewWriter(c.srv)
	for f := range c.wch {
		if err := w.Write(f); err != nil {
			return
		}
	}
}

func (c *stompConn) reader() {
	r := frame.NewReader(c.srv)
	for {
		f, err := r.Read()
		if err != nil {
			c.b.mu.Lock()
			c.closed = true
			c.b.mu.Unlock()
			return
		}
		if f == nil {
			continue // heart-beat
		}
		c.b.mu.Lock()
		c.inQ = append(c.inQ, f)
		need := !c.inEv
		c.inEv = true
		c.b.mu.Unlock()
		if need {
			c.b.s.AddEvent(fmt.Sprintf("stomp:c%02d:in", c.id), 0, c.processIn)
		}
	}
}

func (c *stompConn) enqueueOut(f *frame.Frame) {
	b := c.b
	b.mu.Lock()
	if c.closed {
		b.mu.Unlock()
		return
	}
	if f.Command == frame.MESSAGE && b.Prefetch > 0 {
		if c.unacked >= b.Prefetch {
			c.held = append(c.held, f)
			b.mu.Unlock()
			return
		}
		c.unacked++
	}
	c.outQ = append(c.outQ, f)
	need := !c.outEv
	c.outEv = true
	b.mu.Unlock()
	if need {
		b.s.AddEvent(fmt.Sprintf("stomp:c%02d:out", c.id), 0, c.deliverOut)
	}
}

func (c *stompConn) deliverOut() {
	b := c.b
	b.mu.Lock()
	if len(c.outQ) == 0 || c.closed {
		c.outEv = false
		b.mu.Unlock()
		return
	}
	f := c.outQ[0]
	c.outQ = c.outQ[1:]
	more := len(c.outQ) > 0
	c.outEv = more
	cb := b.OnDeliver
	b.mu.Unlock()
	select {
	case c.wch <- f:
	default:
		b.rc.Violate("INFRA", "stomp-write-queue-full", "", "")
	}
	if f.Command == frame.MESSAGE && cb != nil {
		cb(f.Header.Get(frame.Destination), f.Body)
	}
	if more {
		b.s.AddEvent(fmt.Sprintf("stomp:c%02d:out", c.id), 0, c.deliverOut)
	}
}

func (c *stompConn) processIn() {
	b := c.b
	b.mu.Lock()
	if len(c.inQ) == 0 {
		c.inEv = false
		b.mu.Unlock()
		return
	}
	f := c.inQ[0]
	c.inQ = c.inQ[1:]
	more := len(c.inQ) > 0
	c.inEv = more
	b.mu.Unlock()
	receipt := func() {
		if id, ok := f.Header.Contains(frame.Receipt); ok {
			c.enqueueOut(frame.New(frame.RECEIPT, frame.ReceiptId, id))
		}
	}
	switch f.Command {
	case frame.CONNECT, frame.STOMP:
		c.enqueueOut(frame.New(frame.CONNECTED, frame.Version, "1.2", frame.HeartBeat, "0,0", frame.Server, "sim/1.0", frame.Session, strconv.Itoa(c.id)))
	case frame.SUBSCRIBE:
		b.mu.Lock()
		b.subs = append(b.subs, &stompSub{c: c, id: f.Header.Get(frame.Id), dest: f.Header.Get(frame.Destination)})
		b.mu.Unlock()
		receipt()
	case frame.UNSUBSCRIBE:
		b.mu.Lock()
		for i, s := range b.subs {
			if s.c == c && s.id == f.Header.Get(frame.Id) {
				b.subs = append(b.subs[:i], b.subs[i+1:]...)
				break
			}
		}
		b.mu.Unlock()
		receipt()
	case frame.SEND:
		dest := f.Header.Get(frame.Destination)
		if b.OnSend == nil || !b.OnSend(dest, f.Body) {
			b.Route(dest, f.Body)
		}
		receipt()
	case frame.ACK:
		b.mu.Lock()
		b.Acks = append(b.Acks, f.Header.Get(frame.Id))
		var next *frame.Frame
		if b.Prefetch > 0 {
			c.unacked--
			if len(c.held) > 0 && c.unacked < b.Prefetch {
				next = c.held[0]
				c.held = c.held[1:]
			}
		}
		b.mu.Unlock()
		if next != nil {
			c.enqueueOut(next)
		}
		receipt()
	case frame.NACK:
		receipt()
	case frame.DISCONNECT:
		receipt()
	}
	if more {
		b.s.AddEvent(fmt.Sprintf("stomp:c%02d:in", c.id), 0, c.processIn)
	}
}

// Route delivers body to every subscription of dest (a /queue/ destination
// goes to one of them); also the harness's way to inject raw messages.
func (b *SimStomp) Route(dest string, body []byte) int {
	b.mu.Lock()
	var targets []*stompSub
	for _, s := range b.subs {
		if s.dest == dest {
			targets = append(targets, s)
		}
	}
	if len(dest) > 7 && dest[:7] == "/queue/" && len(targets) > 1 {
		targets = []*stompSub{targets[b.rc.Tape.Intn("queue", len(targets))]}
	}
	var frames []*frame.Frame
	for _, s := range targets {
		b.msgN++
		id := strconv.Itoa(b.msgN)
		f := frame.New(frame.MESSAGE, frame.Subscription, s.id, frame.MessageId, id, frame.Destination, dest, frame.Ack, "ack-"+id,
			frame.ContentType, "application/octet-stream", frame.ContentLength, strconv.Itoa(len(body)))
		if b.OmitAckNext > 0 {
			// a MESSAGE frame without the header an acknowledgement needs (a broker that delivers in auto mode)
			b.OmitAckNext--
			f.Header.Del(frame.Ack)
		}
		f.Body = append([]byte(nil), body...)
		frames = append(frames, f)
	}
	b.mu.Unlock()
	for i, s := range targets {
		s.c.enqueueOut(frames[i])
	}
	return len(targets)
}

func (b *SimStomp) SubCount(dest string) int {
	b.mu.Lock()
	defer b.mu.Unlock()
	n := 0
	for _, s := range b.subs {
		if s.dest == dest {
			n++
		}
	}
	return n
}

func (b *SimStomp) Pending() int {
	b.mu.Lock()
	defer b.mu.Unlock()
	n := 0
	for _, c := range b.conns {
		n += len(c.inQ) + len(c.outQ) + len(c.held)
	}
	return n
}

func (b *SimStomp) Kill() {
	b.mu.Lock()
	cs := append([]*stompConn(nil), b.conns...)
	b.mu.Unlock()
	for _, c := range cs {
		b.mu.Lock()
		c.closed = true
		b.mu.Unlock()
		c.srv.Close()
		close(c.wch)
	}
}
