package harness

import (
	"context"

	"github.com/apache/thrift/lib/go/thrift"
)

// Hand-built Thrift messages (apache thrift protocol objects over a plain
// memory buffer, no frugal and no generated code): used to compute expected
// wire sizes and to build raw requests / parse raw replies for the server
// harness.

type rawField struct {
	id  int16
	typ thrift.TType
	val any // int32, int64, string, []byte, bool, float64, []rawField (struct), rawList
}

type rawList struct {
	elem  thrift.TType
	items []any
}

func writeRawValue(ctx context.Context, p thrift.TProtocol, typ thrift.TType, v any) {
	switch typ {
	case thrift.I32:
		p.WriteI32(ctx, v.(int32))
	case thrift.I64:
		p.WriteI64(ctx, v.(int64))
	case thrift.BOOL:
		p.WriteBool(ctx, v.(bool))
	case thrift.DOUBLE:
		p.WriteDouble(ctx, v.(float64))
	case thrift.STRING:
		switch x := v.(type) {
		case string:
			p.WriteString(ctx, x)
		case []byte:
			p.WriteBinary(ctx, x)
		}
	case thrift.STRUCT:
		writeRawStruct(ctx, p, "s", v.([]rawField))
	case thrift.LIST:
		l := v.(rawList)
		p.WriteListBegin(ctx, l.elem, len(l.items))
		for _, it := range l.items {
			writeRawValue(ctx, p, l.elem, it)
		}
		p.WriteListEnd(ctx)
	}
}

func writeRawStruct(ctx context.Context, p thrift.TProtocol, name string, fields []rawField) {
	p.WriteStructBegin(ctx, name)
	for _, f := range fields {
		p.WriteFieldBegin(ctx, "f", f.typ, f.id)
		writeRawValue(ctx, p, f.typ, f.val)
		p.WriteFieldEnd(ctx)
	}
	p.WriteFieldStop(ctx)
	p.WriteStructEnd(ctx)
}

// rawMessage serialises a complete Thrift message with the given protocol.
func rawMessage(proto, method string, mtype thrift.TMessageType, fields []rawField) []byte {
	buf := thrift.NewTMemoryBuffer()
	p := protoFactory(proto).GetProtocol(buf)
	ctx := context.Background()
	p.WriteMessageBegin(ctx, method, mtype, 0)
	writeRawStruct(ctx, p, method+"_args", fields)
	p.WriteMessageEnd(ctx)
	p.Flush(ctx)
	return append([]byte(nil), buf.Bytes()...)
}

// rawReply is a decoded reply message.
type rawReply struct {
	method   string
	mtype    thrift.TMessageType
	appType  int32
	appMsg   string
	fieldIDs []int16 // ids present in the result struct (REPLY only)
	leftover int
	err      error
}

// parseRawReply decodes a reply payload schema-less: message header, then
// either a TApplicationException or a result struct whose fields are skipped.
func parseRawReply(proto string, payload []byte) rawReply {
	var r rawReply
	buf := thrift.NewTMemoryBuffer()
	buf.Write(payload)
	p := protoFactory(proto).GetProtocol(buf)
	ctx := context.Background()
	name, mt, _, err := p.ReadMessageBegin(ctx)
	if err != nil {
		r.err = err
		return r
	}
	r.method, r.mtype = name, mt
	if mt == thrift.EXCEPTION {
		ex := thrift.NewTApplicationException(0, "")
		if err := ex.Read(ctx, p); err != nil {
			r.err = err
			return r
		}
		r.appType, r.appMsg = ex.TypeId(), ex.Error()
	} else {
		if _, err := p.ReadStructBegin(ctx); err != nil {
			r.err = err
			return r
		}
		for {
			_, ft, id, err := p.ReadFieldBegin(ctx)
			if err != nil {
				r.err = err
				return r
			}
			if ft == thrift.STOP {
				break
			}
			r.fieldIDs = append(r.fieldIDs, id)
			if err := p.Skip(ctx, ft); err != nil {
				r.err = err
				return r
			}
			p.ReadFieldEnd(ctx)
		}
		p.ReadStructEnd(ctx)
	}
	if err := p.ReadMessageEnd(ctx); err != nil {
		r.err = err
	}
	r.leftover = buf.Len()
	return r
}
