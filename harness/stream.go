package harness

import (
	"context"
	"errors"
	"fmt"
	"io"
	"math/rand/v2"
	"sync"
	"time"

	"github.com/apache/thrift/lib/go/thrift"
	"verif/simrt"
)

// SimStream is the simulated byte stream under fAdapterTransport /
// FSimpleServer connections: a thrift.TTransport whose inbound bytes are
// delivered by scheduler-chosen environment events in tape-chosen chunk sizes
// and whose every I/O call can fail, end or stall by the run's fault plan.
// A byte stream delays and cuts; it never reorders or duplicates bytes.
type SimStream struct {
	// WholeItems: every PeerWrite becomes readable in one piece (no short reads).
	WholeItems bool
	rc         *RunCtx
	s          *simrt.Sim
	Name       string

	mu         sync.Mutex
	open       bool
	Epoch      int // incremented by every successful Open
	wire       []wireItem
	in         []byte
	inErr      error
	inWake     chan struct{}
	devPending bool
	never      chan struct{}
	out        []byte
	seq        int
	ended      bool

	// hooks (called without st.mu held)
	OnFrame         func(frame []byte)           // complete frame written by the system under test
	OnDelivered     func(seq int)                // inbound item seq fully readable
	OnOpen          func(epoch int)              // after a successful Open
	OnClose         func(epoch int)              // after Close by the system under test
	OnReadErr       func(epoch int, err error)   // a Read call returned the injected end/error
	OnOpenWhileOpen func()                       // Open called on an open stream (returns ALREADY_OPEN)
	OnStaleRead     func(readerEpoch, epoch int) // a read loop started for an earlier open reads the current connection
	openSteps       []int
	// fault plan: consulted with the 0-based index of the call within the run
	OpenFault  func(i int) error
	CloseFault func(i int) error
	WriteFault func(i int, p []byte) (err error, block bool)
	// WriteDelay: simulated time this Write takes before it succeeds (a congested socket)
	WriteDelay func(p []byte) time.Duration
	FlushFault func(i int) (err error, block bool)
	ReadFault  func(i int) error // checked on every Read call before data

	Opens, Closes, Writes, Flushes, Reads int
	// ReaderIdle is true while a Read call is blocked waiting for bytes.
	ReaderIdle bool
	// SocketIsOpen: IsOpen waits for a Read that is blocked waiting for bytes, as thrift.TSocket's does.
	SocketIsOpen  bool
	isOpenWaiters []chan struct{}
	siteIsOpen    int

	siteRead, siteWrite, siteFlush, siteClose, siteOpen, siteBlocked int
}

type wireItem struct {
	b   []byte
	err error
	seq int
}

// NewSimStream creates a closed stream.
func NewSimStream(rc *RunCtx, name string) *SimStream {
	return &SimStream{rc: rc, s: rc.Sim, Name: name, inWake: make(chan struct{}, 1), never: make(chan struct{}),
		siteRead:    simrt.HarnessSite("stream.Read"),
		siteWrite:   simrt.HarnessSite("stream.Write"),
		siteFlush:   simrt.HarnessSite("stream.Flush"),
		siteClose:   simrt.HarnessSite("stream.Close"),
		siteOpen:    simrt.HarnessSite("stream.Open"),
		siteBlocked: simrt.HarnessSite("stream.blocked-forever"),
		siteIsOpen:  simrt.HarnessSite("stream.IsOpen-behind-pending-read"),
	}
}

// ErrEOF is what thrift.TSocket returns at end of stream.
func ErrEOF() error { return thrift.NewTTransportExceptionFromError(io.EOF) }

// ErrReset mimics a connection reset.
func ErrReset() error {
	return thrift.NewTTransportException(thrift.UNKNOWN_TRANSPORT_EXCEPTION, "read: connection reset by peer")
}

func (st *SimStream) Open() error {
	simrt.Pre(st.siteOpen)
	st.mu.Lock()
	i := st.Opens
	st.Opens++
	if st.open {
		cb := st.OnOpenWhileOpen
		st.mu.Unlock()
		if cb != nil {
			cb()
		}
		return thrift.NewTTransportException(thrift.ALREADY_OPEN, "Socket already connected.")
	}
	f := st.OpenFault
	st.mu.Unlock()
	if f != nil {
		if err := f(i); err != nil {
			return err
		}
	}
	st.mu.Lock()
	st.open = true
	st.Epoch++
	st.openSteps = append(st.openSteps, st.s.Step)
	ep := st.Epoch
	st.wire, st.in, st.inErr, st.out, st.ended, st.devPending = nil, nil, nil, nil, false, false
	select {
	case <-st.inWake:
	default:
	}
	cb := st.OnOpen
	st.mu.Unlock()
	if cb != nil {
		cb(ep)
	}
	return nil
}

func (st *SimStream) IsOpen() bool {
	st.mu.Lock()
	if st.SocketIsOpen && st.open && st.ReaderIdle {
		// like thrift's TSocket: its liveness check goes through the descriptor's read lock, and a Read that is
		// waiting for bytes holds that lock until bytes arrive or the socket is closed
		ch := make(chan struct{}, 1)
		st.isOpenWaiters = append(st.isOpenWaiters, ch)
		st.mu.Unlock()
		simrt.Recv(st.siteIsOpen, ch)
		st.mu.Lock()
	}
	defer st.mu.Unlock()
	return st.open
}

// SetSocketIsOpen switches the TSocket-like IsOpen on or off; switching it off releases whoever waits in IsOpen.
func (st *SimStream) SetSocketIsOpen(on bool) {
	st.mu.Lock()
	st.SocketIsOpen = on
	st.mu.Unlock()
	if !on {
		st.releaseIsOpenWaiters()
	}
}

func (st *SimStream) releaseIsOpenWaiters() {
	st.mu.Lock()
	ws := st.isOpenWaiters
	st.isOpenWaiters = nil
	st.mu.Unlock()
	for _, ch := range ws {
		ch <- struct{}{}
	}
}

func (st *SimStream) Close() error {
	simrt.Pre(st.siteClose)
	st.mu.Lock()
	i := st.Closes
	st.Closes++
	f := st.CloseFault
	st.mu.Unlock()
	if f != nil {
		if err := f(i); err != nil {
			return err
		}
	}
	st.mu.Lock()
	was := st.open
	st.open = false
	ep := st.Epoch
	cb := st.OnClose
	st.mu.Unlock()
	st.wakeReader()
	if was && cb != nil {
		cb(ep)
	}
	return nil
}

func (st *SimStream) wakeReader() {
	select {
	case st.inWake <- struct{}{}:
	default:
	}
}

func (st *SimStream) Read(p []byte) (int, error) {
	st.mu.Lock()
	myEpoch := st.Epoch
	// which open does the calling read loop belong to? (the go statement that
	// started it ran inside that Open, after the stream's Open returned)
	if sp := simrt.SpawnStep(); sp >= 0 && st.OnStaleRead != nil {
		re := 0
		for i, os := range st.openSteps {
			if os <= sp {
				re = i + 1
			}
		}
		if re != 0 && re != myEpoch {
			cb := st.OnStaleRead
			st.mu.Unlock()
			cb(re, myEpoch)
			st.mu.Lock()
		}
	}
	st.mu.Unlock()
	for {
		st.mu.Lock()
		if st.Epoch != myEpoch {
			// this call began on a connection that has since been closed (and
			// replaced): like a Read on the old socket it fails, it never sees
			// the new connection's bytes
			st.mu.Unlock()
			return 0, thrift.NewTTransportException(thrift.NOT_OPEN, "read: use of closed connection")
		}
		i := st.Reads
		st.Reads++
		rf := st.ReadFault
		st.mu.Unlock()
		if rf != nil {
			if err := rf(i); err != nil {
				return 0, err
			}
		}
		st.mu.Lock()
		if len(st.in) > 0 {
			n := copy(p, st.in)
			st.in = st.in[n:]
			st.mu.Unlock()
			return n, nil
		}
		if st.inErr != nil {
			err := st.inErr
			ep := st.Epoch
			cb := st.OnReadErr
			if te, ok := err.(thrift.TTransportException); ok && te.TypeId() == thrift.TIMED_OUT {
				// a read timeout is reported once per read: the connection itself is still there (and silent)
				st.inErr, st.ended = nil, false
			}
			st.mu.Unlock()
			if cb != nil {
				cb(ep, err)
			}
			return 0, err
		}
		if !st.open {
			st.mu.Unlock()
			return 0, thrift.NewTTransportException(thrift.NOT_OPEN, "read: use of closed connection")
		}
		if len(p) == 0 {
			st.mu.Unlock()
			return 0, nil
		}
		st.ReaderIdle = true
		st.mu.Unlock()
		simrt.Recv(st.siteRead, st.inWake)
		st.mu.Lock()
		st.ReaderIdle = false
		st.mu.Unlock()
		st.releaseIsOpenWaiters()
	}
}

func (st *SimStream) Write(p []byte) (int, error) {
	simrt.Pre(st.siteWrite)
	st.mu.Lock()
	i := st.Writes
	st.Writes++
	wf := st.WriteFault
	open := st.open
	st.mu.Unlock()
	if !open {
		return 0, thrift.NewTTransportException(thrift.NOT_OPEN, "Connection not open")
	}
	if wf != nil {
		err, block := wf(i, p)
		if block {
			simrt.Recv(st.siteBlocked, st.never)
		}
		if err != nil {
			return 0, err
		}
	}
	if wd := st.WriteDelay; wd != nil {
		if d := wd(p); d > 0 {
			simrt.Block(st.siteBlocked)
			time.Sleep(d)
			simrt.Yield(st.siteBlocked)
		}
	}
	st.mu.Lock()
	st.out = append(st.out, p...)
	frames, rest := SplitFrames(st.out)
	st.out = append([]byte(nil), rest...)
	cb := st.OnFrame
	st.mu.Unlock()
	if cb != nil {
		for _, f := range frames {
			cb(append([]byte(nil), f...))
		}
	}
	return len(p), nil
}

func (st *SimStream) Flush(ctx context.Context) error {
	simrt.Pre(st.siteFlush)
	st.mu.Lock()
	i := st.Flushes
	st.Flushes++
	ff := st.FlushFault
	st.mu.Unlock()
	if ff != nil {
		err, block := ff(i)
		if block {
			simrt.Recv(st.siteBlocked, st.never)
		}
		if err != nil {
			return err
		}
	}
	return nil
}

func (st *SimStream) RemainingBytes() uint64 { return ^uint64(0) }

// ---- peer side ------------------------------------------------------------------

// PeerWrite queues bytes towards the system under test and returns the item's
// sequence number; delivery happens through scheduler-chosen events.
func (st *SimStream) PeerWrite(b []byte) int {
	if len(b) == 0 {
		return -1
	}
	return st.enqueue(wireItem{b: append([]byte(nil), b...)})
}

// PeerEnd queues an end-of-stream (err == nil: EOF) or a read error after
// everything written so far.
func (st *SimStream) PeerEnd(err error) int {
	if err == nil {
		err = ErrEOF()
	}
	return st.enqueue(wireItem{err: err})
}

func (st *SimStream) enqueue(it wireItem) int {
	st.mu.Lock()
	if st.ended {
		// the connection has already ended in this epoch: nothing more arrives
		st.mu.Unlock()
		return -1
	}
	if it.err != nil {
		st.ended = true
	}
	st.seq++
	it.seq = st.seq
	st.wire = append(st.wire, it)
	need := !st.devPending
	st.devPending = true
	ep := st.Epoch
	st.mu.Unlock()
	if need {
		st.scheduleDelivery(ep)
	}
	return it.seq
}

func (st *SimStream) scheduleDelivery(ep int) {
	st.s.AddEvent(fmt.Sprintf("net:%s:deliver", st.Name), 0, func() { st.deliver(ep) })
}

// deliver moves one chunk from the wire to the readable buffer.
func (st *SimStream) deliver(ep int) {
	st.mu.Lock()
	if ep != st.Epoch {
		st.mu.Unlock()
		return
	}
	if len(st.wire) == 0 {
		st.devPending = false
		st.mu.Unlock()
		return
	}
	it := &st.wire[0]
	var done []int
	if it.err != nil {
		st.inErr = it.err
		done = append(done, it.seq)
		st.wire = st.wire[1:]
	} else {
		n := len(it.b)
		// chunk size: whole item (most of the time), or a short read
		switch pick := func() int {
			if st.WholeItems {
				return 0
			}
			return st.rc.Tape.Pick("chunk", 6, func(r *rand.Rand) int {
				if r.IntN(10) < 6 {
					return 0
				}
				return 1 + r.IntN(4)
			})
		}; pick() {
		case 1:
			if n > 1 {
				n = 1
			}
		case 2:
			if n > 3 {
				n = 3
			}
		case 3:
			if n > 4 {
				n = 4 + st.rc.Tape.Intn("chunk", n-4)
			}
		case 4:
			if n > 1 {
				n = 1 + st.rc.Tape.Intn("chunk", n-1)
			}
		}
		if n < len(it.b) {
			st.rc.Sim.Count("fault:short-read")
		}
		st.in = append(st.in, it.b[:n]...)
		it.b = it.b[n:]
		if len(it.b) == 0 {
			done = append(done, it.seq)
			st.wire = st.wire[1:]
		}
	}
	more := len(st.wire) > 0
	st.devPending = more
	cb := st.OnDelivered
	st.mu.Unlock()
	st.wakeReader()
	if cb != nil {
		for _, q := range done {
			cb(q)
		}
	}
	if more {
		st.scheduleDelivery(ep)
	}
}

// PendingInbound reports bytes not yet consumed by the reader (wire + buffer).
func (st *SimStream) PendingInbound() int {
	st.mu.Lock()
	defer st.mu.Unlock()
	n := len(st.in)
	for _, it := range st.wire {
		n += len(it.b)
	}
	return n
}

// Kill unblocks everything at teardown.
func (st *SimStream) Kill() {
	st.mu.Lock()
	st.open = false
	st.inErr = errors.New("simulation over")
	st.mu.Unlock()
	st.wakeReader()
}
