package harness

import (
	"encoding/binary"
	"fmt"
	"reflect"
	"strings"
	"time"

	frugal "github.com/Workiva/frugal/lib/go"
	"github.com/apache/thrift/lib/go/thrift"
	"verif/harness/gen/simbase"
	"verif/harness/gen/simsvc"
	"verif/simrt"
)

// e2e harness (DESIGN.md §3 C03, C09, C12, C16): generated client -> real
// transport -> real server -> generated processor -> stub handler and back,
// over a healthy (delaying, reordering) simulated network, with concurrent
// callers. All oracles are always on; rc.Prop only biases what is generated.

func init() { Register("e2e", e2eHarness) }

type mwSpec struct {
	name     string
	rewrite  bool
	slow     bool // does "work" (a simulated millisecond) after the inner handler returned, before looking at the results
	clearErr bool // turns a failure coming back from the inside into a fallback value (SetError(nil))
	setErr   bool // turns a success coming back from the inside into an error (client side: a plain error; processor side: a declared exception)
}

func (env *e2eEnv) middleware(spec mwSpec) frugal.ServiceMiddleware {
	return func(next frugal.InvocationHandler) frugal.InvocationHandler {
		return func(svc reflect.Value, method reflect.Method, args frugal.Arguments) frugal.Results {
			tag, _ := args.Context().RequestHeader("tag")
			p := env.plans[tag]
			if p != nil {
				p.trace(spec.name, "enter "+spec.name)
			}
			isPing := strings.EqualFold(method.Name, "basePing")
			if spec.rewrite && isPing && len(args) == 2 {
				args[1] = args[1].(string) + "|" + spec.name
			}
			res := next(svc, method, args)
			if spec.slow {
				site := simrt.HarnessSite("middleware.work")
				simrt.Block(site)
				time.Sleep(time.Millisecond)
				simrt.Yield(site)
			}
			if p != nil && isPing && len(res) == 2 {
				// what this middleware sees coming back from the inside
				// with an error the value still is what the inside returned: a string, if only an empty one
				seen := fmt.Sprintf("<error, value %T %q>", res[0], fmt.Sprint(res[0]))
				if res.Error() == nil {
					seen, _ = res[0].(string)
				}
				p.mwSaw = append(p.mwSaw, spec.name+"="+seen)
			}
			if isPing && len(res) == 2 {
				switch {
				case spec.clearErr && res.Error() != nil:
					res.SetError(nil)
					res[0] = "fallback|" + spec.name
				case spec.setErr && res.Error() == nil:
					if strings.HasPrefix(spec.name, "srv") || strings.HasPrefix(spec.name, "added") {
						res.SetError(&simbase.BaseErr{Why: "set-by|" + spec.name, Code: 77})
					} else {
						res.SetError(fmt.Errorf("set-by|%s", spec.name))
					}
					res[0] = ""
				case spec.rewrite && res.Error() == nil:
					res[0] = res[0].(string) + "|" + spec.name
				}
			}
			if p != nil {
				p.trace(spec.name, "exit "+spec.name)
			}
			return res
		}
	}
}

func e2eHarness(rc *RunCtx) {
	tp := rc.Tape
	s := rc.NewSim(rc.Scale(60000, 200000), 10*time.Minute)
	env := &e2eEnv{rc: rc, s: s}
	env.kind = []string{"adapter", "http", "nats"}[tp.Intn("cfg", 3)]
	if k := rc.Params["transport"]; k != "" {
		env.kind = k
	}
	env.proto = []string{"binary", "compact", "json"}[tp.Intn("cfg", 3)]
	nCallers := 1 + tp.Intn("cfg", rc.Scale(4, 6))
	perCaller := 1 + tp.Intn("cfg", rc.Scale(4, 7))
	// JSON over the framed simple server is a recorded finding (D9): those
	// runs are reduced to one probe call reported under one specific key
	jsonFramed := env.kind == "adapter" && env.proto == "json"
	if jsonFramed {
		nCallers, perCaller = 1, 1
	}
	env.natsWorkers = 1 + tp.Intn("cfg", 3)
	rc.Sample["transport"], rc.Sample["protocol"] = env.kind, env.proto
	rc.Sample["callers"], rc.Sample["calls_per_caller"] = nCallers, perCaller
	if nCallers > 1 {
		rc.Nontrivial = true
	}
	// size limits (C12 profile)
	limits := []uint{96, 128, 200, 256, 512, 1024, 4096, 65536}
	if rc.Prop == "C12" && env.kind == "http" {
		if tp.Intn("cfg", 4) != 0 {
			env.httpReqLimit = limits[tp.Intn("cfg", len(limits))]
		}
		if tp.Intn("cfg", 4) != 0 {
			env.httpRespLimit = limits[tp.Intn("cfg", len(limits))]
		}
		if k := tp.Intn("tinylimit", 10); k == 1 || k == 2 {
			// ... and so are limits below the size of the frame prefix: every message is too large for them
			tiny := uint(1 + tp.Intn("tinylimit", 6))
			if k == 1 {
				env.httpReqLimit = tiny
			} else {
				env.httpRespLimit = tiny
			}
			rc.Fault("http-size-limit-of-a-few-bytes")
		}
		if k := tp.Intn("hugelimit", 6); k == 1 || k == 2 {
			// limits that no message reaches are limits too: 4 GiB and beyond must not wrap into small ones
			huge := []uint{1 << 32, 1<<32 + 100, 8 << 30, 1 << 40, 1<<63 - 1, 1<<32 + 1<<20}[tp.Intn("hugelimit", 6)]
			if k == 1 {
				env.httpRespLimit = huge
			} else {
				env.httpReqLimit = huge
			}
			rc.Fault("http-size-limit-of-4GiB-or-more")
		}
		rc.Sample["http_request_limit"], rc.Sample["http_response_limit"] = env.httpReqLimit, env.httpRespLimit
	}
	// middleware lists
	mkList := func(where string, max int) ([]mwSpec, []frugal.ServiceMiddleware) {
		n := 0
		if rc.Prop == "C16" {
			n = tp.Intn("cfg", max+1)
		} else if tp.Intn("cfg", 4) == 0 {
			n = 1
		}
		var specs []mwSpec
		var mws []frugal.ServiceMiddleware
		for i := 0; i < n; i++ {
			sp := mwSpec{name: fmt.Sprintf("%s%d", where, i), rewrite: tp.Intn("cfg", 2) == 1, slow: tp.Intn("cfg", 3) == 0}
			if rc.Prop == "C16" {
				switch tp.Intn("cfg", 6) {
				case 0:
					sp.clearErr = true
				case 1:
					sp.setErr = true
				}
			}
			specs = append(specs, sp)
			mws = append(mws, env.middleware(sp))
		}
		return specs, mws
	}
	cliSpec, cliMW := mkList("cli", 3)
	provSpec, provMW := mkList("prov", 2)
	prov2Spec, prov2MW := mkList("prv2", 2)
	srvSpec, srvMW := mkList("srv", 3)
	// constructor lists with spare capacity: code that appends to them shares the backing array
	cliMW = append(make([]frugal.ServiceMiddleware, 0, len(cliMW)+6), cliMW...)
	srvMW = append(make([]frugal.ServiceMiddleware, 0, len(srvMW)+6), srvMW...)
	var addSpec []mwSpec
	if rc.Prop == "C16" && tp.Intn("cfg", 3) == 0 {
		addSpec = append(addSpec, mwSpec{name: "added0", rewrite: tp.Intn("cfg", 2) == 1})
		for i, n := 1, tp.Intn("added", 3); i <= n; i++ {
			// several AddMiddleware calls, every middleware built by the same constructor
			addSpec = append(addSpec, mwSpec{name: fmt.Sprintf("added%d", i), rewrite: tp.Intn("added", 2) == 1})
		}
	}
	rc.Sample["middleware"] = fmt.Sprintf("client=%d provider=%d processor=%d added=%d", len(cliSpec), len(provSpec), len(srvSpec), len(addSpec))
	if len(cliSpec)+len(provSpec)+len(srvSpec)+len(addSpec) > 0 {
		rc.Nontrivial = true
	}
	// healthy-network delays
	env.httpLatency = func() time.Duration { return time.Duration(tp.Intn("net", 6)) * time.Millisecond }

	finished := false
	var infra string
	var plans []*callPlan
	doneC := make(chan int, nCallers)
	siteDone := simrt.HarnessSite("e2e.caller-done")

	s.GoRoot("main", "main", func() {
		if err := env.start(srvMW, provMW, cliMW); err != nil {
			infra = "start: " + err.Error()
			finished = true
			return
		}
		if env.b != nil {
			env.b.DeliveryDelay = func(c *BrokerConn, isMsg bool) time.Duration {
				if !isMsg {
					return 0
				}
				return time.Duration(tp.Intn("net", 4)) * time.Millisecond
			}
		}
		if env.kind == "adapter" && tp.Intn("reconn", 6) == 5 && env.tr.IsOpen() {
			// an earlier connection died in the middle of a reply and the same transport was opened again (by its
			// monitor, by the application): nothing of the dead connection may reach into this one
			rc.Fault("connection-lost-mid-frame-then-reopened")
			partial := make([]byte, 4+tp.Intn("reconn", 40))
			binary.BigEndian.PutUint32(partial, uint32([]int{50, 5000, 70000}[tp.Intn("reconn", 3)]))
			ch := env.tr.Closed()
			env.streams[0].PeerWrite(partial)
			env.streams[0].PeerEnd(nil)
			simrt.Recv(simrt.HarnessSite("e2e.wait-closed"), ch)
			settle(time.Second)
			if err := env.tr.Open(); err != nil {
				infra = "reopen: " + err.Error()
				finished = true
				return
			}
		}
		if env.kind == "adapter" && len(env.streams) > 1 && tp.Intn("unkoneway", 5) == 1 {
			// a newer client on the same connection sends a oneway this server does not know (nobody waits for an
			// answer, none is due): the requests that follow on the connection are served as if it had not been there
			rc.Fault("unknown-oneway-ahead-of-the-calls")
			for i, n := 0, 1+tp.Intn("unkoneway", 2); i < n; i++ {
				env.streams[1].PeerWrite(EncodeFrame(map[string]string{"_opid": fmt.Sprint(770000 + i), "_cid": "newer-client", "_timeout": "5000"},
					rawMessage(env.proto, "notifyV2", thrift.ONEWAY, []rawField{{1, thrift.STRING, "event-" + genString(tp, "val", 20)}, {2, thrift.I32, int32(7)}})))
			}
		}
		for _, sp := range addSpec {
			env.proc.AddMiddleware(env.middleware(sp))
		}
		// a second client (other provider, same constructor list) and a second,
		// unused processor (same constructor list, its own AddMiddleware):
		// neither may influence the first
		env.client2 = simsvc.NewFLeafClient(frugal.NewFServiceProvider(env.tr, env.pf, prov2MW...), cliMW...)
		proc2 := simsvc.NewFLeafProcessor(&simHandler{env: env}, srvMW...)
		proc2.AddMiddleware(env.middleware(mwSpec{name: "srv-other-processor"}))
		env.prov2Spec = prov2Spec
		g := &e2eGen{rc: rc, env: env}
		for i := 0; i < nCallers; i++ {
			i := i
			var mine []*callPlan
			for j := 0; j < perCaller; j++ {
				p := g.newPlan(len(plans))
				if jsonFramed && p.timeout > 3*time.Second {
					p.timeout = 3 * time.Second // D9: the call may legitimately fail; do not wait 40 simulated days for it
				}
				p.via2 = tp.Intn("call", 3) == 0
				if j > 0 && rc.Prop != "C12" && p.shape == nil && mine[j-1].shape == nil && tp.Intn("reuse", 5) == 4 {
					p.reuse = mine[j-1]
				}
				plans = append(plans, p)
				env.plans[p.tag] = p
				mine = append(mine, p)
			}
			s.Go("caller", func() {
				for _, p := range mine {
					env.invoke(p)
				}
				simrt.Send(siteDone, doneC, i)
			})
		}
		if env.otherEndpoint != nil {
			env.otherEndpoint()
		}
		for i := 0; i < nCallers; i++ {
			simrt.Recv(siteDone, doneC)
		}
		if env.otherEndpoint != nil {
			env.otherEndpoint()
		}
		// a plain call at the end: the same client and server still work
		p := g.plainPlan(len(plans))
		if jsonFramed && p.timeout > 3*time.Second {
			p.timeout = 3 * time.Second
		}
		p.tag = "final"
		plans = append(plans, p)
		env.plans[p.tag] = p
		env.invoke(p)
		// let one-way requests reach the handler
		site := simrt.HarnessSite("e2e.settle")
		simrt.Block(site)
		time.Sleep(time.Second)
		simrt.Yield(site)
		env.shutdown()
		finished = true
	})

	s.Run(func() bool { return finished && env.quiet() })

	if infra != "" {
		rc.Violate("INFRA", "setup", env.kind, infra)
	} else if !finished {
		rc.Violate("C03", "calls-never-finished", env.kind, fmt.Sprintf("the workload did not finish within the horizon (%s/%s)", env.kind, env.proto))
	} else if jsonFramed {
		bad := ""
		for _, p := range plans {
			if p.handlerRuns != 1 || (p.outcome == "ok" && p.gotErr != nil) {
				bad = fmt.Sprintf("%s %s: handler ran %d times, caller got err=%v", p.tag, p.method, p.handlerRuns, p.gotErr)
				break
			}
		}
		if bad != "" {
			rc.Violate("C03", "json-protocol-over-simple-server", "TFramedTransport.Read fails when asked for more than the rest of the frame",
				"JSON protocol over adapter transport + FSimpleServer: "+bad)
		}
	} else {
		e2eCheck(rc, env, plans, cliSpec, provSpec, srvSpec, addSpec)
	}
	s.Shutdown()
	env.kill()
}

// ---- call generation ---------------------------------------------------------------

type e2eGen struct {
	rc  *RunCtx
	env *e2eEnv
}

func (g *e2eGen) headers(p *callPlan) {
	tp := g.rc.Tape
	p.reqHdr = map[string]string{}
	p.respHdr = map[string]string{}
	max := 2
	if g.rc.Prop == "C09" {
		max = 6
	}
	// header names: mostly plain, sometimes of the kinds a careless "is this one of ours?" test gets wrong
	prefix := func(plain string) string {
		return []string{plain, plain, plain, plain, "_", "__", "_trace", strings.ToUpper(plain), "_opid2", "_cidX", "_timeout_", "tag2", "_" + plain}[tp.Intn("hdrname", 13)]
	}
	for i, n := 0, tp.Intn("hdr", max+1); i < n; i++ {
		name := prefix("h") + genString(tp, "hdr", 4)
		val := genString(tp, "hdr", 12)
		if tp.Intn("hdr", 12) == 0 {
			val = strings.Repeat(val+"x", 40)
		}
		p.reqHdr[name] = val
	}
	for i, n := 0, tp.Intn("hdr", max+1); i < n; i++ {
		p.respHdr[prefix("r")+genString(tp, "hdr", 4)] = genString(tp, "hdr", 12)
	}
	if len(p.reqHdr) > 0 && tp.Intn("hdrname", 6) == 5 {
		// a response header named like one of the request headers
		p.respHdr[sortedKeys(p.reqHdr)[0]] = "resp-" + genString(tp, "hdr", 5)
	}
	if g.rc.Prop == "C09" && tp.Intn("hdr", 10) == 0 {
		p.reqHdr[""] = "empty-name"
	}
	p.cid = "cid-" + genString(tp, "hdr", 6)
	p.timeout = []time.Duration{250 * time.Millisecond, time.Second, 3 * time.Second, 30 * time.Second, 1234 * time.Millisecond,
		61001 * time.Millisecond, 2147483648 * time.Millisecond, 40 * 24 * time.Hour}[tp.Intn("hdr", 8)]
	if k := tp.Intn("tmoany", 4); k == 3 {
		// any whole number of milliseconds is a timeout (not only round ones)
		p.timeout = time.Duration(1000+tp.Intn("tmoany", 200000)) * time.Millisecond
	}
	if k := tp.Intn("nulhdr", 8); k >= 6 {
		// names that differ only in trailing NUL bytes are different names
		base := "z" + genString(tp, "hdr", 3)
		p.reqHdr[base] = "plain"
		p.reqHdr[base+"\x00"] = "one-nul"
		if k == 7 {
			p.reqHdr[base+"\x00\x00"] = "two-nuls"
			p.respHdr[base+"\x00"] = "resp-one-nul"
			p.respHdr[base] = "resp-plain"
		}
	}
	if len(p.reqHdr) > 0 && tp.Intn("bighdr", 12) == 11 {
		// one header value larger than any read buffer on the way
		p.reqHdr[sortedKeys(p.reqHdr)[0]] = strings.Repeat(genString(tp, "hdr", 6)+"v", 1000+tp.Intn("bighdr", 3000))
	}
	if g.rc.Prop == "C09" && len(p.respHdr) > 0 && tp.Intn("onward", 4) == 1 {
		p.onward = true
		p.onwardWrapped = tp.Intn("onward", 2) == 1
		g.rc.Fault("handler-makes-an-onward-call-with-its-context")
	}
	if k := tp.Intn("rawbytes", 6); g.rc.Prop == "C09" && (k == 1 || k == 2) {
		// values are byte strings: nothing on the way may "repair" bytes that are not UTF-8
		raw := []string{"\xff\xfe", "caf\xe9", "\xe6\x97", "ok\xc3", "\x80", "a\xf0\x9f\x98z"}
		p.reqHdr["raw"+genString(tp, "hdr", 2)] = raw[tp.Intn("rawbytes", len(raw))]
		p.respHdr["rawr"] = raw[tp.Intn("rawbytes", len(raw))]
		if k == 2 {
			p.cid = "cid-" + raw[tp.Intn("rawbytes", len(raw))]
		}
		g.rc.Fault("header-values-that-are-not-utf8")
	}
	if len(p.respHdr) > 0 && tp.Intn("hdr", 3) == 0 {
		// the caller's context already carries a response header of that name (a reused context, an onward call)
		p.staleRespKey = sortedKeys(p.respHdr)[0]
	}
	if len(p.reqHdr)+len(p.respHdr) > 0 {
		g.rc.Nontrivial = true
	}
}

func (g *e2eGen) plainPlan(id int) *callPlan {
	p := &callPlan{id: id, tag: fmt.Sprintf("t%d", id), method: "add", args: []any{int32(id), int32(7)}, outcome: "ok", ret: int32(id + 7)}
	g.headers(p)
	if g.rc.Prop == "C12" {
		g.expectBySize(p)
	}
	return p
}

func (g *e2eGen) newPlan(id int) *callPlan {
	tp := g.rc.Tape
	p := &callPlan{id: id, tag: fmt.Sprintf("t%d", id), outcome: "ok"}
	g.headers(p)
	methods := []string{"basePing", "baseNote", "echoItem", "doVoid", "add", "blob", "bigString", "mixed", "URLFor", "Lookup", "shapes", "shapes2", "leafPing", "many", "choose", "color", "stamp", "headersSeen", "fire"}
	switch g.rc.Prop {
	case "C16":
		methods = []string{"basePing", "basePing", "basePing", "basePing", "echoItem", "doVoid", "fire", "baseNote", "leafPing"}
	case "C09":
		methods = []string{"basePing", "add", "echoItem", "fire", "headersSeen"}
	case "C12":
		methods = []string{"blob", "bigString", "blob", "bigString", "add", "mixed", "mixed"}
	}
	p.method = methods[tp.Intn("call", len(methods))]
	p.dur = []time.Duration{0, 0, time.Millisecond, 7 * time.Millisecond}[tp.Intn("call", 4)]
	outcome := func(choices ...string) string { return choices[tp.Intn("call", len(choices))] }
	appTypes := []int32{0, 1, 3, 5, 6, 7, 42}
	failure := func() {
		switch p.outcome {
		case "undeclared":
			p.msg = "boom-" + genString(tp, "val", 5)
		case "appex":
			p.appType = appTypes[tp.Intn("call", len(appTypes))]
			p.msg = "app-" + genString(tp, "val", 5)
		}
	}
	switch p.method {
	case "basePing":
		p.args = []any{"ping-" + genString(tp, "val", 6)}
		p.outcome = outcome("ok", "ok", "ex1", "undeclared", "appex")
		if p.outcome == "ex1" {
			p.ret = &simbase.BaseErr{Why: genString(tp, "val", 6), Code: int32(tp.Intn("val", 100))}
		}
	case "baseNote", "fire":
		p.oneway = true
		p.args = []any{"note-" + genString(tp, "val", 6)}
	case "echoItem":
		p.args = []any{genItem(tp, int64(id)), int32(tp.Intn("val", 1000)) - 500}
		p.outcome = outcome("ok", "ok", "ex1", "ex2", "undeclared", "appex")
		switch p.outcome {
		case "ok":
			p.ret = genItem(tp, int64(id)+1000)
		case "ex1":
			p.ret = &simsvc.NotFound{Key: genString(tp, "val", 6)}
		case "ex2":
			p.ret = &simsvc.Denied{Code: int32(tp.Intn("val", 50)), Reason: genString(tp, "val", 6)}
		}
	case "doVoid":
		p.args = []any{genString(tp, "val", 10)}
		p.outcome = outcome("ok", "ex1", "undeclared", "appex")
		if p.outcome == "ex1" {
			p.ret = &simsvc.Denied{Code: 3, Reason: genString(tp, "val", 6)}
		}
	case "add":
		a, b := int32(tp.Intn("val", 1000)), int32(tp.Intn("val", 1000))
		p.args = []any{a, b}
		p.outcome = outcome("ok", "ok", "undeclared", "appex")
		p.ret = a + b
	case "blob":
		p.args = []any{[]byte(genString(tp, "val", 20)), int32(tp.Intn("val", 4))}
		p.ret = []byte(genString(tp, "val", 30))
	case "bigString":
		p.args = []any{int32(tp.Intn("val", 100)), genString(tp, "val", 10)}
		p.ret = genString(tp, "val", 40)
	case "mixed":
		// a string followed by many one-byte values (what a size limit sees as a big write, then a long run
		// of tiny ones; the longest runs outgrow a buffer whose capacity the big write had rounded up)
		mk := func() *simsvc.Mixed {
			m := &simsvc.Mixed{Pad: genString(tp, "val", 12), Flags: []bool{}}
			for i, n := 0, []int{0, 1, 7, 300, 3000, 9000, 20000}[tp.Intn("val", 7)]; i < n; i++ {
				m.Flags = append(m.Flags, (i*7+n)%3 == 0)
			}
			return m
		}
		p.args = []any{mk()}
		p.ret = mk()
	case "shapes":
		// one method with the shapes a generator sees rarely: typedef'd nested containers as argument and
		// return type, sparse and unordered field ids, i8/i16/double, binary inside a list, enum-keyed maps,
		// a defaulted field, a union, arguments named like the generator's locals, exceptions of two files
		deep := func() simsvc.Deep {
			d := simsvc.Deep{}
			for i, n := 0, tp.Intn("val", 3); i < n; i++ {
				var l []map[int64]bool
				for j, m := 0, tp.Intn("val", 3); j < m; j++ {
					set := map[int64]bool{}
					for k, q := 0, tp.Intn("val", 3); k < q; k++ {
						set[int64(tp.Intn("val", 1000))-500] = true
					}
					l = append(l, set)
				}
				d["d"+genString(tp, "val", 3)] = l
			}
			return d
		}
		paint := simsvc.Paint([]simsvc.Color{1, 2, 5}[tp.Intn("val", 3)])
		odd := &simsvc.Odd{Neg: genString(tp, "val", 5), Five: int32(tp.Intn("val", 100)) - 50, Big: tp.Intn("val", 2) == 1, B: int8(tp.Intn("val", 256) - 128),
			S: int16(tp.Intn("val", 65536) - 32768), D: float64(tp.Intn("val", 1000))/7 - 50, Bins: [][]byte{[]byte(genString(tp, "val", 4)), {0, 255}},
			ByColor: map[simsvc.Color]*simsvc.Mixed{2: {Pad: "g", Flags: []bool{true, false}}}, Dflt: []string{"dv", "", "other"}[tp.Intn("val", 3)]}
		if tp.Intn("val", 2) == 1 {
			odd.Paint = &paint
		}
		txt := genString(tp, "val", 6)
		p.args = []any{deep(), odd, paint, int16(tp.Intn("val", 65536) - 32768), int8(tp.Intn("val", 256) - 128), float64(tp.Intn("val", 100000)) / 16,
			genString(tp, "val", 5), genString(tp, "val", 5), [][]byte{[]byte(genString(tp, "val", 6))}, map[simsvc.Paint]string{paint: "p", 5: genString(tp, "val", 3)}, &simsvc.Choice{Text: &txt}}
		p.outcome = outcome("ok", "ok", "ex1", "ex2", "undeclared", "appex")
		switch p.outcome {
		case "ok":
			p.ret = deep()
		case "ex1":
			p.ret = &simbase.BaseErr{Why: genString(tp, "val", 6), Code: int32(tp.Intn("val", 100))}
		case "ex2":
			p.ret = &simsvc.NotFound{Key: genString(tp, "val", 6)}
		}
	case "shapes2":
		// struct shapes a generator meets rarely: lists and maps of structs (each element its own object), containers
		// two deep, optional fields that are present but zero or empty, defaults of every kind that the sender
		// overrides or leaves alone, a required field holding zero, a union with struct and container members,
		// integer and float extremes, an exception that carries containers and a struct
		mk := func() *simsvc.Deepish {
			d := simsvc.NewDeepish()
			for i, n := 0, tp.Intn("val", 4); i < n; i++ {
				d.Leaves = append(d.Leaves, &simsvc.Leafy{Name: genString(tp, "val", 4), N: int32(i)})
			}
			d.ByName = map[string]*simsvc.Leafy{}
			for i, n := 0, tp.Intn("val", 4); i < n; i++ {
				d.ByName[fmt.Sprintf("n%d", i)] = &simsvc.Leafy{Name: genString(tp, "val", 4), N: int32(100 + i)}
			}
			d.Names = map[string]bool{"a": true, genString(tp, "val", 3): true}
			d.Grid = [][]int32{{1, 2}, {}, {int32(tp.Intn("val", 9))}}
			d.Nested = map[int32]map[string]float64{7: {"x": 1.5, "y": -2}, -1: {}}
			if tp.Intn("val", 2) == 1 {
				z := int32(0)
				d.OptZero = &z
			}
			if tp.Intn("val", 2) == 1 {
				d.OptLeaf = &simsvc.Leafy{}
			}
			switch tp.Intn("val", 3) {
			case 1:
				d.DefNum, d.DefBool, d.DefColor, d.DefList = 0, false, simsvc.Color_RED, []int32{}
			case 2:
				d.DefNum, d.DefList = -7, []int32{9}
			}
			d.ReqZero = []int64{0, 0, 5}[tp.Intn("val", 3)]
			switch tp.Intn("val", 3) {
			case 0:
				d.Pick = &simsvc.Pick{Leaf: &simsvc.Leafy{Name: "u", N: 1}}
			case 1:
				d.Pick = &simsvc.Pick{Nums: []int32{3, 1, 2}}
			default:
				d.Pick = &simsvc.Pick{Kv: map[string]string{"k": genString(tp, "val", 3)}}
			}
			d.Big = []int64{0, 1<<63 - 1, -1 << 63, 1 << 53}[tp.Intn("val", 4)]
			if k := tp.Intn("val", 4); k > 0 {
				v := []float64{1.5, 1.5 + 1e-12, 1.5000000001, 0}[k]
				d.Tuned = v // at, next to and away from the declared default
			}
			d.Inf = []float64{0, -0.5, 1e308, 5e-324, -1e-300}[tp.Intn("val", 5)] // (no infinities: apache thrift's JSON reader mis-reads "Infinity" when the token straddles its 4096-byte buffer - upstream, not frugal)
			return d
		}
		p.args = []any{mk()}
		p.outcome = outcome("ok", "ok", "ex1", "undeclared")
		p.ret = mk()
		if p.outcome == "ex1" {
			p.ret = &simsvc.Loaded{Reasons: []string{"r1", genString(tp, "val", 4)}, Where: &simsvc.Leafy{Name: "w", N: 2}, Counts: map[string]int32{"c": 1, "d": 0}}
		}
	case "leafPing":
		// the one method the outermost service declares itself (all others are inherited, same file or included)
		p.args = []any{genString(tp, "val", 6)}
		p.outcome = outcome("ok", "ok", "ex1", "undeclared")
		p.ret = "leaf:" + genString(tp, "val", 5)
		if p.outcome == "ex1" {
			p.ret = &simsvc.Denied{Code: 7, Reason: genString(tp, "val", 4)}
		}
	case "URLFor":
		// a method (and argument names) starting with capitalised initialisms: every name-casing rule of the generator applies
		p.args = []any{genString(tp, "val", 6), int32(tp.Intn("val", 600))}
		p.outcome = outcome("ok", "ok", "undeclared", "appex")
		p.ret = "http://" + genString(tp, "val", 8)
	case "Lookup":
		// a capitalised method that declares an exception: the names the generator derives for its reply on every path
		// (result, declared exception, internal error) must be the ones the client expects
		p.args = []any{genString(tp, "val", 6)}
		p.outcome = outcome("ok", "ex1", "undeclared", "appex")
		p.ret = "found:" + genString(tp, "val", 5)
		if p.outcome == "ex1" {
			p.ret = &simsvc.NotFound{Key: genString(tp, "val", 4)}
		}
	case "many":
		n := tp.Intn("val", 4)
		p.args = []any{int32(n)}
		items := []*simsvc.Item{}
		for i := 0; i < n; i++ {
			items = append(items, genItem(tp, int64(i)))
		}
		p.ret = items
	case "choose":
		var c *simsvc.Choice
		switch tp.Intn("val", 3) {
		case 0:
			v := int32(tp.Intn("val", 100))
			c = &simsvc.Choice{Num: &v}
		case 1:
			v := genString(tp, "val", 8)
			c = &simsvc.Choice{Text: &v}
		default:
			c = &simsvc.Choice{Blob: &simbase.Blob{Name: "b", Data: []byte{1, 2}, Nums: []int32{3}}}
		}
		p.args = []any{c}
		v := "chosen"
		p.ret = &simsvc.Choice{Text: &v}
	case "color":
		p.args = []any{[]simsvc.Color{1, 2, 5}[tp.Intn("val", 3)]}
		p.ret = []simsvc.Color{1, 2, 5}[tp.Intn("val", 3)]
	case "stamp":
		p.args = []any{simsvc.Stamp(tp.Intn("val", 1<<30))}
		p.ret = simsvc.Stamp(tp.Intn("val", 1<<30)) - 5
	case "headersSeen":
		p.args = []any{}
		p.ret = map[string]string{"a": genString(tp, "val", 4), genString(tp, "val", 3): ""}
	}
	failure()
	if p.outcome == "ok" && g.rc.Prop != "C12" && tp.Intn("call", 5) == 0 {
		// handlers may return nil for container, binary and struct results
		switch p.method {
		case "many":
			p.ret = []*simsvc.Item(nil)
		case "headersSeen":
			p.ret = map[string]string(nil)
		case "blob":
			p.ret = []byte(nil)
		case "echoItem":
			p.ret = (*simsvc.Item)(nil)
		case "choose":
			p.ret = (*simsvc.Choice)(nil)
		}
	}
	if g.rc.Prop == "C12" {
		p.outcome, p.dur = "ok", 0
		if p.method == "blob" || p.method == "bigString" || p.method == "mixed" {
			g.sizePlan(p)
		}
		g.expectBySize(p)
	}
	return p
}

// ---- C12: payloads around the limits ------------------------------------------------

func (g *e2eGen) requestFrameSize(p *callPlan, ctxHdr map[string]string) int {
	var fields []rawField
	switch p.method {
	case "blob":
		fields = []rawField{{1, thrift.STRING, p.args[0].([]byte)}, {2, thrift.I32, p.args[1].(int32)}}
	case "bigString":
		fields = []rawField{{1, thrift.I32, p.args[0].(int32)}, {2, thrift.STRING, p.args[1].(string)}}
	case "add":
		fields = []rawField{{1, thrift.I32, p.args[0].(int32)}, {2, thrift.I32, p.args[1].(int32)}}
	case "mixed":
		fields = []rawField{{1, thrift.STRUCT, rawMixed(p.args[0].(*simsvc.Mixed))}}
	}
	return len(EncodeFrame(ctxHdr, rawMessage(g.env.proto, p.method, thrift.CALL, fields)))
}

func (g *e2eGen) replyFrameSize(p *callPlan, opid string) int {
	h := map[string]string{"_opid": opid, "_cid": p.cid}
	for k, v := range p.respHdr {
		h[k] = v
	}
	if p.method == "add" {
		return len(EncodeFrame(h, rawMessage(g.env.proto, p.method, thrift.REPLY, []rawField{{0, thrift.I32, p.ret}})))
	}
	if p.method == "mixed" {
		return len(EncodeFrame(h, rawMessage(g.env.proto, p.method, thrift.REPLY, []rawField{{0, thrift.STRUCT, rawMixed(p.ret.(*simsvc.Mixed))}})))
	}
	return len(EncodeFrame(h, rawMessage(g.env.proto, p.method, thrift.REPLY, []rawField{{0, thrift.STRING, p.ret}})))
}

func rawMixed(m *simsvc.Mixed) []rawField {
	l := rawList{elem: thrift.BOOL}
	for _, f := range m.Flags {
		l.items = append(l.items, f)
	}
	return []rawField{{1, thrift.STRING, m.Pad}, {2, thrift.LIST, l}}
}

// expectBySize derives, at invoke time, what the limits demand for this call
// from its exact framed sizes (independent codec).
func (g *e2eGen) expectBySize(p *callPlan) {
	env := g.env
	var reqLimit, respLimit int
	switch env.kind {
	case "http":
		reqLimit, respLimit = int(env.httpReqLimit), int(env.httpRespLimit)
	case "nats":
		reqLimit, respLimit = 1024*1024, 1024*1024
	default:
		return
	}
	shape := p.shape
	p.shape = func(hdr map[string]string) {
		if shape != nil {
			shape(hdr)
		}
		rq := g.requestFrameSize(p, hdr)
		rp := g.replyFrameSize(p, hdr["_opid"])
		p.sizeInfo = fmt.Sprintf("request framed %d bytes (limit %d), reply framed %d bytes (limit %d)", rq, reqLimit, rp, respLimit)
		p.expectReqTooLarge = reqLimit > 0 && rq > reqLimit
		p.expectRespTooLarge, p.sizeAmbiguous = false, false
		if p.errBulk {
			p.sizeInfo = fmt.Sprintf("request framed %d bytes (limit %d), the reply is an error reply with a text of %d bytes (limit %d)", rq, reqLimit, len(p.msg), respLimit)
			p.expectRespTooLarge = !p.expectReqTooLarge
			return
		}
		if !p.expectReqTooLarge && respLimit > 0 && rp > respLimit {
			if env.kind == "http" && rp <= respLimit+4 {
				// the HTTP handler compares the reply without its 4-byte frame prefix
				p.sizeAmbiguous = true
			} else {
				p.expectRespTooLarge = true
			}
		}
	}
}

// sizePlan shapes the payload of p so that the framed request or reply lands
// within a few bytes of the applicable limit, or far beyond it.
func (g *e2eGen) sizePlan(p *callPlan) {
	tp := g.rc.Tape
	env := g.env
	var reqLimit, respLimit int
	switch env.kind {
	case "http":
		reqLimit, respLimit = int(env.httpReqLimit), int(env.httpRespLimit)
		// (nothing is shaped towards a limit of gigabytes)
		if reqLimit > 1<<30 {
			reqLimit = 0
		}
		if respLimit > 1<<30 {
			respLimit = 0
		}
	case "nats":
		if tp.Intn("size", 6) != 0 {
			return // megabyte payloads are expensive: most NATS runs stay small
		}
		reqLimit, respLimit = 1024*1024, 1024*1024
	default:
		return
	}
	p.outcome = "ok"
	p.dur = 0
	deltas := []int{-2, -1, 0, 1, 2, 5, 700}
	which := tp.Intn("size", 3) // 0: request side, 1: response side, 2: both small
	d := deltas[tp.Intn("size", len(deltas))]
	if k := tp.Intn("sizefrac", 8); k >= 4 {
		// comfortably inside the limit, but not by a wide margin: 76 to 97 per cent of it (where a limit applied to
		// an encoded form of the message, a third longer, would already refuse)
		lim := reqLimit
		if which == 1 {
			lim = respLimit
		}
		if lim > 200 && which != 2 {
			d = -(lim * []int{24, 20, 10, 3}[k-4] / 100)
			g.rc.Fault("message-at-76-to-97-per-cent-of-the-limit")
		}
	}
	// where the bulk of a reply sits: in the result (default), in a response header the handler sets, or
	// half of it in the correlation id (which every reply, the error replies included, echoes)
	p.bulk = tp.Intn("bulk", 5)
	if p.bulk == 4 {
		// the reply that does not fit is an error reply: the handler fails with an undeclared error whose text is long
		p.bulk = 0
		if which == 1 && respLimit > 0 {
			p.errBulk = true
			p.outcome, p.msg = "undeclared", strings.Repeat("e", respLimit+50)
			g.rc.Fault("bulk-of-the-reply-in-an-error-text")
		}
	}
	if p.bulk == 3 && which == 1 && respLimit > 0 && (reqLimit == 0 || reqLimit >= respLimit) {
		p.cid = "cid-" + strings.Repeat("c", respLimit*11/20)
	}
	// the exact frame sizes depend on the op id, which exists only once the
	// FContext has been created: the payload is shaped at invoke time
	p.shape = func(hdr map[string]string) { g.shape(p, hdr, which, d, reqLimit, respLimit) }
}

func (g *e2eGen) shape(p *callPlan, hdr map[string]string, which, d, reqLimit, respLimit int) {
	_ = g.env
	grow := func(target int, size func() int, set func(n int)) bool {
		// find the payload length that makes size() == target (size is affine in n up to varint/escaping steps)
		lo := 0
		set(lo)
		if size() > target {
			return false
		}
		n := target - size()
		set(n)
		for i := 0; i < 8 && size() != target; i++ {
			n += target - size()
			if n < 0 {
				return false
			}
			set(n)
		}
		return size() == target
	}
	fill := func(n int) string { return strings.Repeat("s", n) }
	if which == 0 && reqLimit > 0 {
		target := reqLimit + d
		ok := false
		if p.bulk == 2 {
			// the bulk of the request sits in one user header: the limit applies to the frame, whatever fills it
			p.shapedReqHdr = map[string]string{}
			ok = grow(target, func() int { return g.requestFrameSize(p, hdr) }, func(n int) { hdr["qbig"] = fill(n); p.shapedReqHdr["qbig"] = hdr["qbig"] })
			if ok {
				g.rc.Fault("bulk-of-the-request-in-a-header")
			} else {
				delete(hdr, "qbig")
				p.shapedReqHdr = nil
			}
		} else if p.method == "blob" {
			ok = grow(target, func() int { return g.requestFrameSize(p, hdr) }, func(n int) { p.args[0] = []byte(fill(n)) })
		} else if p.method == "mixed" {
			ok = grow(target, func() int { return g.requestFrameSize(p, hdr) }, func(n int) { p.args[0].(*simsvc.Mixed).Pad = fill(n) })
		} else {
			ok = grow(target, func() int { return g.requestFrameSize(p, hdr) }, func(n int) { p.args[1] = fill(n) })
		}
		if ok {
			g.rc.Fault("request-at-limit" + fmt.Sprintf("%+d", d))
		}
	} else if which == 1 && respLimit > 0 {
		target := respLimit + d
		ok := false
		if p.bulk == 2 {
			ok = grow(target, func() int { return g.replyFrameSize(p, hdr["_opid"]) }, func(n int) { p.respHdr["rbig"] = fill(n) })
			if ok {
				g.rc.Fault("bulk-of-the-reply-in-a-response-header")
			}
		} else if p.method == "blob" {
			ok = grow(target, func() int { return g.replyFrameSize(p, hdr["_opid"]) }, func(n int) { p.ret = []byte(fill(n)) })
		} else if p.method == "mixed" {
			ok = grow(target, func() int { return g.replyFrameSize(p, hdr["_opid"]) }, func(n int) { p.ret.(*simsvc.Mixed).Pad = fill(n) })
		} else {
			ok = grow(target, func() int { return g.replyFrameSize(p, hdr["_opid"]) }, func(n int) { p.ret = fill(n) })
		}
		if ok {
			g.rc.Fault("response-at-limit" + fmt.Sprintf("%+d", d))
		}
	}
}

// ---- oracles ---------------------------------------------------------------------------

func isTooLarge(err error, typ int) bool {
	te, ok := err.(thrift.TTransportException)
	return ok && te.TypeId() == typ
}

func chainHasErrRewrite(order []mwSpec) bool {
	for _, m := range order {
		if m.clearErr || m.setErr {
			return true
		}
	}
	return false
}

func nest(order []mwSpec) []string {
	var tr []string
	for _, m := range order {
		tr = append(tr, "enter "+m.name)
	}
	for i := len(order) - 1; i >= 0; i-- {
		tr = append(tr, "exit "+order[i].name)
	}
	return tr
}

func e2eCheck(rc *RunCtx, env *e2eEnv, plans []*callPlan, cli, prov, srv, added []mwSpec) {
	key := env.kind + "/" + env.proto
	provOf := func(p *callPlan) []mwSpec {
		if p.via2 {
			return env.prov2Spec
		}
		return prov
	}
	// what went over the wire must be a well-formed Thrift message by its own type tags (an independent,
	// schema-less reader skips every field and must end exactly at the end of the frame)
	for _, w := range env.wire {
		if w.frame == nil || len(w.frame.Payload) == 0 {
			continue
		}
		if r := parseRawReply(env.proto, w.frame.Payload); r.err != nil || r.leftover != 0 {
			rc.Violate("C03", "wire-message-malformed", key+" "+w.dir, fmt.Sprintf("%s frame for op id %s (%s): a schema-less reader fails on it: err=%v, %d bytes left over", w.dir, w.frame.Headers["_opid"], r.method, r.err, r.leftover))
			break
		}
	}
	opids := map[string]string{}
	for _, p := range plans {
		where := fmt.Sprintf("call %s %s(%s) outcome=%s", p.tag, p.method, key, p.outcome)
		if !p.returned {
			rc.Violate("C03", "call-never-returned", key, where)
			continue
		}
		// ---- C12 expectations first: they change what C03 should expect
		if p.expectReqTooLarge {
			if !isTooLarge(p.gotErr, frugal.TRANSPORT_EXCEPTION_REQUEST_TOO_LARGE) {
				rc.Violate("C12", "oversize-request-not-rejected", key, fmt.Sprintf("%s: %s, got err=%v", where, p.sizeInfo, p.gotErr))
			}
			for _, w := range env.wire {
				if w.dir == "req" && w.frame != nil && w.frame.Headers["tag"] == p.tag {
					rc.Violate("C12", "oversize-request-transmitted", key, fmt.Sprintf("%s: %s, yet the request reached the wire", where, p.sizeInfo))
				}
			}
			if p.handlerRuns != 0 {
				rc.Violate("C12", "oversize-request-processed", key, where)
			}
			continue
		}
		if p.expectRespTooLarge {
			if !isTooLarge(p.gotErr, frugal.TRANSPORT_EXCEPTION_RESPONSE_TOO_LARGE) {
				rc.Violate("C12", "oversize-response-not-reported", key+" "+p.method, fmt.Sprintf("%s: %s, caller got ret=%T err=%v", where, p.sizeInfo, p.gotRet, p.gotErr))
			}
			continue
		}
		if p.sizeAmbiguous && isTooLarge(p.gotErr, frugal.TRANSPORT_EXCEPTION_RESPONSE_TOO_LARGE) {
			continue
		}
		if p.sizeInfo != "" && p.gotErr != nil {
			rc.Violate("C12", "in-limit-message-rejected", key, fmt.Sprintf("%s: %s, err=%v", where, p.sizeInfo, p.gotErr))
			continue
		}
		// ---- C03: handler ran once with equal arguments, caller saw the outcome
		if p.handlerRuns != 1 {
			rc.Violate("C03", "handler-invocation-count", key, fmt.Sprintf("%s: handler ran %d times (caller got ret=%v err=%v)", where, p.handlerRuns, fmtArgs([]any{p.gotRet}), p.gotErr))
			if p.handlerRuns == 0 && len(p.mw) == 0 && len(cli)+len(provOf(p)) > 0 {
				// the call came back without having entered a single one of the client's middleware
				rc.Violate("C16", "client-middleware-trace", key, fmt.Sprintf("%s: the call returned (err=%v) without passing through any of its %d client-side middleware", where, p.gotErr, len(cli)+len(provOf(p))))
			}
			continue
		}
		if p.connLost {
			if p.gotErr == nil {
				rc.Violate("C03", "result-without-a-response", key, fmt.Sprintf("%s: the connection was lost before any byte of the response arrived, yet the call returned %v without an error", where, fmtArgs([]any{p.gotRet})))
			}
			continue
		}
		wantArgs := p.args
		if p.method == "basePing" {
			// rewriting middleware on the way in, outermost first
			sArg := p.args[0].(string)
			for _, m := range expectedTraceOrder(cli, provOf(p), srv, added) {
				if m.rewrite {
					sArg += "|" + m.name
				}
			}
			wantArgs = []any{sArg}
		}
		if !argsEqual(wantArgs, p.seenArgs) {
			rc.Violate("C03", "arguments-differ", key+" "+p.method, fmt.Sprintf("%s: sent %v, handler saw %v", where, fmtArgs(wantArgs), fmtArgs(p.seenArgs)))
		}
		switch {
		case p.oneway:
			if p.gotErr != nil {
				rc.Violate("C03", "oneway-failed", key, fmt.Sprintf("%s: %v", where, p.gotErr))
			}
		case p.method == "basePing" && chainHasErrRewrite(expectedTraceOrder(cli, provOf(p), srv, added)):
			// simulate the chain inside-out: value or error, as each middleware sees and changes it
			ord := expectedTraceOrder(cli, provOf(p), srv, added)
			nCliMW := len(cli) + len(provOf(p))
			val, isErr, errDesc := "pong:"+wantArgs[0].(string), false, ""
			if p.ret != nil && p.outcome == "ok" {
				val = p.ret.(string)
			}
			switch p.outcome {
			case "ex1":
				isErr, errDesc = true, "declared"
			case "undeclared", "appex":
				isErr, errDesc = true, "application"
			}
			var wantSaw []string
			for i := len(ord) - 1; i >= 0; i-- {
				m := ord[i]
				if isErr {
					wantSaw = append(wantSaw, m.name+`=<error, value string "">`)
				} else {
					wantSaw = append(wantSaw, m.name+"="+val)
				}
				switch {
				case m.clearErr && isErr:
					isErr, val = false, "fallback|"+m.name
				case m.setErr && !isErr:
					isErr, val = true, ""
					if i >= nCliMW {
						errDesc = "declared-set|" + m.name
					} else {
						errDesc = "plain-set|" + m.name
					}
				case m.rewrite && !isErr:
					val += "|" + m.name
				}
			}
			if !reflect.DeepEqual(wantSaw, p.mwSaw) {
				rc.Violate("C16", "middleware-saw-wrong-results", key, fmt.Sprintf("%s: each middleware should have seen %v coming back, recorded %v", where, wantSaw, p.mwSaw))
			}
			switch {
			case !isErr:
				if p.gotErr != nil || p.gotRet != val {
					rc.Violate("C16", "middleware-rewrite-not-observed", key, fmt.Sprintf("%s: caller should get %q, got %v / %v", where, val, p.gotRet, p.gotErr))
				}
			case strings.HasPrefix(errDesc, "declared-set|"):
				be, ok := p.gotErr.(*simbase.BaseErr)
				if !ok || be.Why != "set-by|"+strings.TrimPrefix(errDesc, "declared-set|") {
					rc.Violate("C16", "middleware-rewrite-not-observed", key, fmt.Sprintf("%s: caller should get the exception set by %s, got %v / %v", where, errDesc, p.gotRet, p.gotErr))
				}
			case strings.HasPrefix(errDesc, "plain-set|"):
				if p.gotErr == nil || p.gotErr.Error() != "set-by|"+strings.TrimPrefix(errDesc, "plain-set|") {
					rc.Violate("C16", "middleware-rewrite-not-observed", key, fmt.Sprintf("%s: caller should get the error set by %s, got %v / %v", where, errDesc, p.gotRet, p.gotErr))
				}
			default:
				if p.gotErr == nil {
					rc.Violate("C16", "middleware-rewrite-not-observed", key, fmt.Sprintf("%s: the handler's failure should reach the caller, got %v", where, p.gotRet))
				}
			}
		case p.outcome == "ok":
			want := p.ret
			if p.method == "basePing" && p.ret == nil {
				sRet := "pong:" + wantArgs[0].(string)
				ord := expectedTraceOrder(cli, provOf(p), srv, added)
				var wantSaw []string
				for i := len(ord) - 1; i >= 0; i-- {
					wantSaw = append(wantSaw, ord[i].name+"="+sRet)
					if ord[i].rewrite {
						sRet += "|" + ord[i].name
					}
				}
				want = sRet
				if !reflect.DeepEqual(wantSaw, p.mwSaw) && len(wantSaw)+len(p.mwSaw) > 0 {
					rc.Violate("C16", "middleware-saw-wrong-results", key, fmt.Sprintf("%s: each middleware should have seen %v coming back, recorded %v", where, wantSaw, p.mwSaw))
				}
			}
			if p.gotErr != nil {
				rc.Violate("C03", "unexpected-error", key+" "+p.method, fmt.Sprintf("%s: %v", where, p.gotErr))
			} else if p.method != "doVoid" && !valuesEqual(want, p.gotRet) {
				rc.Violate("C03", "return-value-differs", key+" "+p.method, fmt.Sprintf("%s: handler returned %v, caller got %v", where, fmtArgs([]any{want}), fmtArgs([]any{p.gotRet})))
			}
		case p.outcome == "ex1" || p.outcome == "ex2":
			if p.gotErr == nil || reflect.TypeOf(p.gotErr) != reflect.TypeOf(p.ret) || !valuesEqual(p.gotErr, p.ret) {
				rc.Violate("C03", "declared-exception-differs", key+" "+p.method, fmt.Sprintf("%s: handler raised %#v, caller got %#v", where, p.ret, p.gotErr))
			}
		case p.outcome == "undeclared":
			ae, ok := p.gotErr.(thrift.TApplicationException)
			if !ok || ae.TypeId() != thrift.INTERNAL_ERROR || !strings.Contains(ae.Error(), p.msg) {
				rc.Violate("C03", "undeclared-error-not-application-error", key, fmt.Sprintf("%s: caller got %#v", where, p.gotErr))
			}
		case p.outcome == "appex":
			ae, ok := p.gotErr.(thrift.TApplicationException)
			if !ok || ae.TypeId() != p.appType || ae.Error() != p.msg {
				rc.Violate("C03", "application-exception-differs", key, fmt.Sprintf("%s: handler raised type %d %q, caller got %#v", where, p.appType, p.msg, p.gotErr))
			}
		}
		// replies on the wire
		nrep := 0
		var rep *Frame
		for _, w := range env.wire {
			if w.dir == "rep" && w.frame != nil && w.frame.Headers["_opid"] == p.opid {
				nrep++
				rep = w.frame
			}
		}
		if p.oneway && nrep != 0 && len(p.sameCtx) < 2 {
			rc.Violate("C03", "oneway-produced-reply", key, fmt.Sprintf("%s: %d reply frames", where, nrep))
		}
		if twoWay := func() (n int) {
			for _, q := range p.sameCtx {
				if !q.oneway && q.returned {
					n++
				}
			}
			return
		}(); len(p.sameCtx) > 1 {
			// one FContext object, one op id, several calls: as many replies as two-way calls
			if nrep != twoWay {
				rc.Violate("C09", "reply-frame-count", key, fmt.Sprintf("%s: %d reply frames carry the op id shared by the %d two-way calls made with this context", where, nrep, twoWay))
			}
		} else if !p.oneway && nrep != 1 {
			rc.Violate("C09", "reply-frame-count", key, fmt.Sprintf("%s: %d reply frames carry its op id", where, nrep))
		}
		// ---- C09: context propagation
		if !reflect.DeepEqual(userHeaders(p.seenHdr), p.reqHdr) {
			rc.Violate("C09", "request-headers-differ", key, fmt.Sprintf("%s: sent %q, handler saw %q", where, p.reqHdr, userHeaders(p.seenHdr)))
		}
		if p.seenCid != p.cid {
			rc.Violate("C09", "correlation-id-differs", key, fmt.Sprintf("%s: %q vs %q", where, p.cid, p.seenCid))
		}
		if p.seenTimeout != p.timeout {
			rc.Violate("C09", "timeout-differs", key, fmt.Sprintf("%s: %v vs %v", where, p.timeout, p.seenTimeout))
		}
		if p.seenOpid == p.opid || p.seenOpid == "" {
			rc.Violate("C09", "handler-opid-not-fresh", key, fmt.Sprintf("%s: request op id %s, handler context op id %q", where, p.opid, p.seenOpid))
		}
		if prev, dup := opids[p.seenOpid]; dup {
			rc.Violate("C09", "opid-collision", key, fmt.Sprintf("%s: handler op id %s also used by %s", where, p.seenOpid, prev))
		}
		opids[p.seenOpid] = p.tag
		if prev, dup := opids[p.opid]; dup && (len(p.sameCtx) < 2 || !strings.HasPrefix(prev, "ctx-of:"+p.sameCtx[0].tag)) {
			rc.Violate("C09", "opid-collision", key, fmt.Sprintf("%s: op id %s also used by %s", where, p.opid, prev))
		}
		opids[p.opid] = p.tag
		if len(p.sameCtx) > 1 {
			opids[p.opid] = "ctx-of:" + p.sameCtx[0].tag
		}
		if !p.oneway {
			for k, v := range p.respHdr {
				if got, ok := p.gotRespHdr[k]; !ok || got != v {
					rc.Violate("C09", "response-header-lost", key, fmt.Sprintf("%s: handler set %q=%q, caller has %q (present=%v)", where, k, v, got, ok))
				}
			}
			if p.onward && p.handlerRuns > 0 {
				switch {
				case p.onwardErr != nil || p.onwardRet != 42:
					rc.Violate("C09", "onward-call-with-the-handlers-context-failed", key, fmt.Sprintf("%s: add(40,2) to a downstream service with the context the handler was given: %d, %v", where, p.onwardRet, p.onwardErr))
				case p.downCid != p.cid:
					rc.Violate("C09", "correlation-id-differs", key, fmt.Sprintf("%s: the downstream service saw correlation id %q, the caller set %q", where, p.downCid, p.cid))
				case p.downOpid == "" || p.downOpid == p.opid || p.downOpid == p.seenOpid:
					rc.Violate("C09", "handler-opid-not-fresh", key, fmt.Sprintf("%s: request op id %s, handler context %s, downstream handler context %q", where, p.opid, p.seenOpid, p.downOpid))
				}
			}
			if rep != nil {
				if rep.Headers["_cid"] != p.cid {
					rc.Violate("C09", "reply-correlation-id", key, fmt.Sprintf("%s: reply frame _cid=%q", where, rep.Headers["_cid"]))
				}
			}
		}
		// ---- C16: middleware trace
		ord := expectedTraceOrder(cli, provOf(p), srv, added)
		nCli := len(cli) + len(provOf(p))
		if want := nest(ord[:nCli]); !(len(want) == 0 && len(p.mw) == 0) && !reflect.DeepEqual(want, p.mw) {
			rc.Violate("C16", "client-middleware-trace", key, fmt.Sprintf("%s: expected %v, recorded %v", where, want, p.mw))
		}
		if want := nest(ord[nCli:]); !(len(want) == 0 && len(p.mwSrv) == 0) && !reflect.DeepEqual(want, p.mwSrv) {
			rc.Violate("C16", "processor-middleware-trace", key, fmt.Sprintf("%s: expected %v, recorded %v", where, want, p.mwSrv))
		}
	}
}

// expectedTraceOrder lists the middleware outermost first: provider wraps
// constructor middleware, later-listed wraps earlier, AddMiddleware wraps all.
func expectedTraceOrder(cli, prov, srv, added []mwSpec) []mwSpec {
	var order []mwSpec
	for i := len(prov) - 1; i >= 0; i-- {
		order = append(order, prov[i])
	}
	for i := len(cli) - 1; i >= 0; i-- {
		order = append(order, cli[i])
	}
	for i := len(added) - 1; i >= 0; i-- {
		order = append(order, added[i])
	}
	for i := len(srv) - 1; i >= 0; i-- {
		order = append(order, srv[i])
	}
	return order
}

func fmtArgs(a []any) string {
	var sb strings.Builder
	for i, v := range a {
		if i > 0 {
			sb.WriteString(", ")
		}
		s := fmt.Sprintf("%+v", v)
		if len(s) > 200 {
			s = s[:200] + "…"
		}
		sb.WriteString(s)
	}
	return sb.String()
}
