package harness

import (
	"context"
	"encoding/base64"
	"encoding/binary"
	"fmt"
	"io"
	"net/http"
	"net/http/httptest"
	"strings"
	"time"

	frugal "github.com/Workiva/frugal/lib/go"
	"github.com/apache/thrift/lib/go/thrift"
	"verif/harness/gen/simsvc"
	"verif/simrt"
)

// corrupt harness (DESIGN.md §3 C05): a running client/server (or
// publisher/subscriber) pair receives one corrupted unit at one receiving
// entry point, derived from a valid frame (bit flips, truncation, splice,
// size-field dictionary at every size position, raw short lengths); then a
// well-formed canary must still be served. The verdict is about the system
// afterwards: no panic, nothing wedged, message-oriented receivers keep
// serving, a connection-oriented receiver loses at most that connection.

func init() { Register("corrupt", corruptHarness) }

var sizeDict = []uint32{0, 1, 3, 4, 0xffffffff, 0x7fffffff, 0x80000000, 0xfffffffe, 0x00010000}

// sizePositions returns the offsets of every 32-bit size field of a frame
// (frame size prefix, header block size, each name and value length).
func sizePositions(frame []byte) []int {
	pos := []int{0, 5}
	if len(frame) < 9 {
		return pos
	}
	hs := int(binary.BigEndian.Uint32(frame[5:9]))
	i, end := 9, 9+hs
	for i+4 <= end && end <= len(frame) {
		pos = append(pos, i)
		n := int(binary.BigEndian.Uint32(frame[i : i+4]))
		i += 4 + n
		if i+4 > end {
			break
		}
		pos = append(pos, i)
		n = int(binary.BigEndian.Uint32(frame[i : i+4]))
		i += 4 + n
	}
	return pos
}

// giantRequest is well framed but extreme: an unknown method whose name is
// n bytes long (the reply quotes the name, so it can overflow a reply limit
// the request itself fits in).
func giantRequest(proto string, n int) []byte {
	return EncodeFrame(map[string]string{"_opid": "779", "_cid": "c", "_timeout": "2000", "tag": "ghost"},
		rawMessage(proto, strings.Repeat("m", n), thrift.CALL, []rawField{{1, thrift.I32, int32(1)}}))
}

func corruptFrame(rc *RunCtx, valid []byte, streamEntry bool) ([]byte, string) {
	tp := rc.Tape
	b := append([]byte(nil), valid...)
	if rc.Params["giant"] != "" || (rc.Sample["entry"] != nil && strings.HasSuffix(rc.Sample["entry"].(string), "-server") && tp.Intn("corrupt", 8) == 0) {
		n := []int{100, 70000, 300000, 600000}[tp.Intn("corrupt", 4)]
		rc.Fault("giant-unknown-method-name")
		proto, _ := rc.Sample["protocol"].(string)
		return giantRequest(proto, n), fmt.Sprintf("well-framed request for an unknown method with a %d-byte name", n)
	}
	if proto, _ := rc.Sample["wireproto"].(string); proto == "json" && tp.Intn("jsonsize", 5) == 0 {
		// JSON carries numbers of any size: a container that announces more elements than an int32 can hold (the
		// binary and compact encodings cannot even say that). Behind a valid envelope, in a field of the type the
		// receiver expects there, so that the generated reader - not a skip - meets it
		if f, err := DecodeFrame(b); err == nil {
			n := []string{"4611686018427387904", "9223372032559808512", "4611686022722355200"}[tp.Intn("jsonsize", 3)]
			entry, _ := rc.Sample["entry"].(string)
			var body string
			switch {
			case strings.HasSuffix(entry, "-subscriber"):
				body = []string{
					`[1,"ItemCreated",1,0,{"4":{"map":["str","lst",1,{"k":["i32",` + n + `]}]}}]`,
					`[1,"ItemCreated",1,0,{"7":{"set":["str",` + n + `]}}]`,
					`[1,"ItemCreated",1,0,{"4":{"map":["str","lst",` + n + `,{}]}}]`,
				}[tp.Intn("jsonsize", 3)]
			case strings.HasSuffix(entry, "-server"):
				body = []string{
					`[1,"mixed",1,0,{"1":{"rec":{"1":{"str":"x"},"2":{"lst":["tf",` + n + `]}}}}]`,
					`[1,"shapes",1,0,{"9":{"lst":["str",` + n + `]}}]`,
					`[1,"shapes",1,0,{"10":{"map":["i32","str",` + n + `,{}]}}]`,
					`[1,"echoItem",1,0,{"1":{"rec":{"7":{"set":["str",` + n + `]}}}}]`,
				}[tp.Intn("jsonsize", 4)]
			default:
				// (the client side of this harness calls add, whose result holds no container: the skip path)
				body = `[1,"add",2,0,{"0":{"lst":["i32",` + n + `]}}]`
			}
			rc.Fault("json-container-size-beyond-int32")
			return EncodeFrame(f.Headers, []byte(body)), "valid envelope, JSON body " + body
		}
	}
	if k := tp.Intn("corrupt2", 9); k == 1 || k == 2 {
		// a well-formed frame whose routing headers are not what a peer would send
		if f, err := DecodeFrame(b); err == nil {
			name := []string{"_opid", "_cid"}[k-1]
			v := []string{"", "-1", "+778", " 778", "778 ", "0x30a", "18446744073709551616", "123456789012345678901234567890", "7.78e2", "\x00", strings.Repeat("9", 70000)}[tp.Intn("corrupt2", 11)]
			if tp.Intn("corrupt2", 4) == 0 {
				delete(f.Headers, name)
				v = "(absent)"
			} else {
				f.Headers[name] = v
			}
			rc.Fault("hostile-routing-header")
			if len(v) > 40 {
				v = fmt.Sprintf("%s... (%d bytes)", v[:10], len(v))
			}
			return EncodeFrame(f.Headers, f.Payload), fmt.Sprintf("well-formed frame with %s=%q", name, v)
		}
	}
	switch tp.Intn("corrupt", 12) {
	case 11:
		// a well-formed frame whose _timeout header is not what a client would send
		f, err := DecodeFrame(b)
		if err == nil {
			v := []string{"0", "-1", "-9223372036854775808", "9223372036854775807", "abc", "", "1e3", " 5", "00005"}[tp.Intn("corrupt", 9)]
			f.Headers["_timeout"] = v
			rc.Fault("hostile-timeout-header")
			return EncodeFrame(f.Headers, f.Payload), fmt.Sprintf("well-formed frame with _timeout=%q", v)
		}
		fallthrough
	case 10:
		// a frame that is wrong from its first byte on (unknown version, absurd header size) AND shorter than
		// announced: whoever decides to skip "the rest of the frame" must cope with a rest that never comes
		rc.Fault("undecodable-start-of-a-frame-that-is-cut-short")
		out := make([]byte, 4, 24)
		binary.BigEndian.PutUint32(out, []uint32{100, 5000, 70000}[tp.Intn("corrupt", 3)])
		out = append(out, []byte{1, 0, 0xff, 0x7f}[tp.Intn("corrupt", 4)])
		if out[4] == 0 {
			out = append(out, 0x7f, 0xff, 0xff, 0xf0) // header block larger than the frame
		}
		for i, n := 0, tp.Intn("corrupt", 8); i < n; i++ {
			out = append(out, byte(tp.Intn("corrupt", 256)))
		}
		return out, fmt.Sprintf("frame announcing %d bytes, starting % x, cut after %d", binary.BigEndian.Uint32(out), out[4:min(len(out), 9)], len(out)-4)
	case 9:
		// a size prefix no frame can have, followed by bytes that read as a plausible size: a receiver that
		// "skips" the impossible frame on a stream starts waiting for a frame that does not exist
		rc.Fault("impossible-size-then-plausible-size")
		out := make([]byte, 8+tp.Intn("corrupt", 9))
		binary.BigEndian.PutUint32(out, []uint32{0x7fffffff, 0xffffffff, 0x80000000, 0xfffffff0}[tp.Intn("corrupt", 4)])
		binary.BigEndian.PutUint32(out[4:], []uint32{0x00fa0000, 0x00010000, 0x00000400, 0x00000020}[tp.Intn("corrupt", 4)])
		return out, fmt.Sprintf("size prefix %#x followed by %#x and %d more bytes", binary.BigEndian.Uint32(out), binary.BigEndian.Uint32(out[4:]), len(out)-8)
	case 8:
		// the smallest well-formed unit: a frame of size zero (what a oneway
		// gets over HTTP), alone or followed by stray bytes
		rc.Fault("empty-frame")
		out := make([]byte, 4+[]int{0, 0, 1, 5}[tp.Intn("corrupt", 4)])
		return out, fmt.Sprintf("empty frame (size prefix 0) + %d stray zero bytes", len(out)-4)
	case 7:
		// well-framed, valid header block, hostile Thrift body
		proto, _ := rc.Sample["protocol"].(string)
		hs := int(binary.BigEndian.Uint32(b[5:9]))
		mb := thrift.NewTMemoryBuffer()
		mb.Write(b[9+hs:])
		method, mtype, _, _ := protoFactory(proto).GetProtocol(mb).ReadMessageBegin(context.Background())
		body, what := hostileBody(rc, proto, method, mtype)
		out := append([]byte(nil), b[4:9+hs]...)
		out = append(out, body...)
		framed := make([]byte, 4, 4+len(out))
		binary.BigEndian.PutUint32(framed, uint32(len(out)))
		rc.Fault("hostile-thrift-body")
		return append(framed, out...), what
	case 0:
		n := tp.Intn("corrupt", 6)
		rc.Fault("raw-short-length")
		out := make([]byte, n)
		for i := range out {
			out[i] = byte(tp.Intn("corrupt", 256))
		}
		return out, fmt.Sprintf("raw %d bytes", n)
	case 1:
		cut := tp.Intn("corrupt", len(b))
		rc.Fault("truncate")
		return b[:cut], fmt.Sprintf("truncated at %d/%d", cut, len(b))
	case 2:
		k := 1 + tp.Intn("corrupt", 3)
		for j := 0; j < k; j++ {
			i := tp.Intn("corrupt", len(b))
			b[i] ^= 1 << uint(tp.Intn("corrupt", 8))
		}
		rc.Fault("bit-flip")
		return b, fmt.Sprintf("%d bit flips", k)
	case 3, 4:
		ps := sizePositions(b)
		if !streamEntry {
			ps = ps[1:]
		}
		p := ps[tp.Intn("corrupt", len(ps))]
		v := sizeDict[tp.Intn("corrupt", len(sizeDict))]
		if tp.Intn("corrupt", 3) == 0 {
			old := binary.BigEndian.Uint32(b[p:])
			v = old + uint32([]int{1, -1 + 1<<32, 2}[tp.Intn("corrupt", 3)])
		}
		binary.BigEndian.PutUint32(b[p:], v)
		rc.Fault("size-field")
		return b, fmt.Sprintf("size field at %d = %#x", p, v)
	case 5:
		i := tp.Intn("corrupt", len(b))
		out := append(append([]byte(nil), b[:i]...), b[tp.Intn("corrupt", len(b)):]...)
		rc.Fault("splice")
		return out, fmt.Sprintf("splice at %d", i)
	default:
		rc.Fault("extend")
		return append(b, make([]byte, 1+tp.Intn("corrupt", 9))...), "extended"
	}
}

// hostileBody builds a Thrift message whose envelope is valid but whose
// contents promise more than they hold: containers and strings with sizes from
// the dictionary, deep nesting, fields of the wrong type.
func hostileBody(rc *RunCtx, proto, method string, mtype thrift.TMessageType) ([]byte, string) {
	tp := rc.Tape
	buf := thrift.NewTMemoryBuffer()
	p := protoFactory(proto).GetProtocol(buf)
	ctx := context.Background()
	if mtype == thrift.CALL && tp.Intn("corrupt", 3) == 0 {
		method = "nosuch"
	}
	fid := int16([]int{0, 1, 2, 99, -1, 32767}[tp.Intn("corrupt", 6)])
	oddType := ""
	if k := tp.Intn("msgtype", 12); k >= 4 {
		// a message type the receiver does not expect at this point, or one that does not exist
		mtype = thrift.TMessageType([]int32{0, 1, 2, 3, 4, 5, 6, 7}[k-4])
		if tp.Intn("msgtype", 3) == 0 {
			mtype = thrift.TMessageType([]int32{8, 15, 100, 255}[tp.Intn("msgtype", 4)])
		}
		oddType = fmt.Sprintf(" message type %d,", mtype)
	}
	p.WriteMessageBegin(ctx, method, mtype, int32([]int{0, 0, -1, 1 << 30}[tp.Intn("msgtype", 4)]))
	p.WriteStructBegin(ctx, "x")
	big := int(int32(sizeDict[tp.Intn("corrupt", len(sizeDict))]))
	var what string
	switch k := tp.Intn("corrupt", 6); {
	case oddType != "" && tp.Intn("msgtype", 2) == 0:
		p.WriteFieldBegin(ctx, "a", thrift.I32, 1)
		p.WriteI32(ctx, 1)
		p.WriteFieldEnd(ctx)
		p.WriteFieldBegin(ctx, "b", thrift.I32, 2)
		p.WriteI32(ctx, 2)
		p.WriteFieldEnd(ctx)
		p.WriteFieldStop(ctx)
		p.WriteStructEnd(ctx)
		p.WriteMessageEnd(ctx)
		what = "well-formed arguments"
		_ = k
	case k == 0:
		p.WriteFieldBegin(ctx, "f", thrift.LIST, fid)
		p.WriteListBegin(ctx, thrift.I64, big)
		what = fmt.Sprintf("list<i64> announcing %d elements", big)
	case k == 1:
		p.WriteFieldBegin(ctx, "f", thrift.MAP, fid)
		p.WriteMapBegin(ctx, thrift.STRING, thrift.STRUCT, big)
		what = fmt.Sprintf("map<string,struct> announcing %d entries", big)
	case k == 2:
		p.WriteFieldBegin(ctx, "f", thrift.SET, fid)
		p.WriteSetBegin(ctx, thrift.BOOL, big)
		what = fmt.Sprintf("set<bool> announcing %d elements", big)
	case k == 3:
		p.WriteFieldBegin(ctx, "f", thrift.STRING, fid)
		p.WriteI32(ctx, int32(big))
		what = fmt.Sprintf("string announcing %d bytes", big)
	case k == 4:
		depth := []int{10, 63, 64, 65, 1000, 20000}[tp.Intn("corrupt", 6)]
		for i := 0; i < depth; i++ {
			p.WriteFieldBegin(ctx, "f", thrift.STRUCT, fid)
			p.WriteStructBegin(ctx, "n")
		}
		if tp.Intn("corrupt", 2) == 0 {
			for i := 0; i < depth; i++ {
				p.WriteFieldStop(ctx)
				p.WriteStructEnd(ctx)
				p.WriteFieldEnd(ctx)
			}
			p.WriteFieldStop(ctx)
			p.WriteStructEnd(ctx)
			p.WriteMessageEnd(ctx)
		}
		what = fmt.Sprintf("structs nested %d deep", depth)
	default:
		// a list of lists of lists ... each announcing one element
		depth := []int{10, 64, 65, 5000}[tp.Intn("corrupt", 4)]
		p.WriteFieldBegin(ctx, "f", thrift.LIST, fid)
		for i := 0; i < depth; i++ {
			p.WriteListBegin(ctx, thrift.LIST, 1)
		}
		what = fmt.Sprintf("lists nested %d deep", depth)
	}
	p.Flush(ctx)
	return append([]byte(nil), buf.Bytes()...), fmt.Sprintf("valid envelope for %q (field %d),%s body: %s", method, fid, oddType, what)
}

func corruptHarness(rc *RunCtx) {
	tp := rc.Tape
	s := rc.NewSim(60000, 10*time.Minute)
	entries := []string{"adapter-client", "simple-server", "nats-client", "nats-server", "http-server", "http-client", "nats-subscriber", "stomp-subscriber"}
	entry := entries[tp.Intn("cfg", len(entries))]
	if v := rc.Params["entry"]; v != "" {
		entry = v
	}
	proto := []string{"binary", "compact", "json"}[tp.Intn("cfg", 3)]
	rc.Sample["entry"], rc.Sample["protocol"] = entry, proto
	rc.Sample["wireproto"] = proto
	rc.Nontrivial = true
	if strings.HasSuffix(entry, "subscriber") {
		corruptSubscriber(rc, s, entry, proto)
		return
	}
	env := &e2eEnv{rc: rc, s: s, proto: proto, garbageExpected: true}
	switch {
	case strings.HasPrefix(entry, "adapter"), strings.HasPrefix(entry, "simple"):
		env.kind = "adapter"
		if proto == "json" {
			env.proto = "binary" // D9
			rc.Sample["wireproto"] = "binary"
		}
	case strings.HasPrefix(entry, "nats"):
		env.kind = "nats"
	default:
		env.kind = "http"
	}
	key := entry
	finished := false
	var infra, what string
	var canaryErr, warmErr error
	var closedCause error
	closedSeen := false
	hostilePrefix := false
	garbleNext := false
	g := &e2eGen{rc: rc, env: env}

	call := func(tag string) error {
		p := g.plainPlan(len(env.plans))
		p.tag = tag
		p.timeout = 2 * time.Second
		env.plans[tag] = p
		env.invoke(p)
		if tag != "garbled" && p.gotErr == nil && p.gotRet != p.ret {
			rc.Violate("C05", "wrong-data-after-corruption", key, fmt.Sprintf("%s returned %v, expected %v", tag, p.gotRet, p.ret))
		}
		return p.gotErr
	}

	s.GoRoot("main", "main", func() {
		if err := env.start(nil, nil, nil); err != nil {
			infra = err.Error()
			finished = true
			return
		}
		warmErr = call("warm")
		// a valid frame of the kind this entry point receives
		reqFrame := EncodeFrame(map[string]string{"_opid": "777", "_cid": "c", "_timeout": "2000", "tag": "ghost"},
			rawMessage(env.proto, "add", thrift.CALL, []rawField{{1, thrift.I32, int32(1)}, {2, thrift.I32, int32(2)}}))
		repFrame := EncodeFrame(map[string]string{"_opid": "778", "_cid": "c"},
			rawMessage(env.proto, "add", thrift.REPLY, []rawField{{0, thrift.I32, int32(3)}}))
		env.plans["ghost"] = &callPlan{tag: "ghost", method: "add", outcome: "ok", ret: int32(3)}
		switch entry {
		case "adapter-client":
			bad, w := corruptFrame(rc, repFrame, true)
			what = w
			hostilePrefix = len(bad) >= 8 && binary.BigEndian.Uint32(bad) >= 0x7fffffff
			ch := env.tr.Closed()
			env.streams[0].PeerWrite(bad)
			if tp.Intn("cfg", 2) == 0 {
				// garbage may leave the reader waiting for bytes it was promised: end the stream
				env.streams[0].PeerEnd(nil)
			}
			settle(time.Second)
			select {
			case c, ok := <-ch:
				closedSeen = true
				if ok {
					closedCause = c
				}
			default:
			}
			// connection-oriented: the canary uses a new connection - through a new transport or, when the
			// transport gave the connection up by itself, through the same transport opened again (what a monitor
			// or the application does): nothing of the dead connection may be left in it
			if closedSeen && tp.Intn("corrupt2", 2) == 1 {
				rc.Fault("same-transport-reopened-after-garbage")
				settle(time.Second)
				if err := env.tr.Open(); err != nil {
					rc.Violate("C05", "canary-failed", key, fmt.Sprintf("entry %s, corruption: %s: the transport closed itself and cannot be opened again: %v", entry, what, err))
				}
			} else {
				env.tr = frugal.NewAdapterTransport(env.newAdapterConn())
				if err := env.tr.Open(); err != nil {
					infra = "reopen: " + err.Error()
				}
				env.client = simsvc.NewFLeafClient(frugal.NewFServiceProvider(env.tr, env.pf))
			}
		case "simple-server":
			bad, w := corruptFrame(rc, reqFrame, true)
			what = w
			// a second connection carries the garbage; the first one must stay usable
			c2 := env.newAdapterConn()
			c2.Open()
			// raw bytes straight into the server's end of the connection (the client-side stream would forward
			// whole frames only, and a frame that is shorter than announced is exactly what must get through)
			srvEnd := env.streams[len(env.streams)-1]
			srvEnd.PeerWrite(bad)
			if tp.Intn("cfg", 2) == 0 {
				srvEnd.PeerEnd(nil)
			}
			settle(time.Second)
		case "nats-client":
			bad, w := corruptFrame(rc, repFrame, false)
			what = w
			var hdr []byte
			subj := "_INBOX.cli.778"
			if k := tp.Intn("corrupt2", 5); k == 1 {
				// (status fields shorter than three characters are left out: nats.go v1.33.1 itself panics on
				// them in DecodeHeadersMsg, before any frugal code sees the message; see DESIGN section 8)
				hdr = []byte([]string{"NATS/1.0 408\r\n\r\n", "NATS/1.0    503   \r\n\r\n", "NATS/1.0 abc\r\n\r\n", "NATS/1.0 503 No Responders\r\nX: y\r\n\r\n", "NATS/1.0\r\nStatus: 503\r\n\r\n", "NATS/1.0 5030\r\n\r\n"}[tp.Intn("corrupt2", 6)])
				subj = []string{"_INBOX.cli.778", "_INBOX.cli.", "_INBOX.cli", "_INBOX.cli.778.9", "_INBOX.cli.-1", "_INBOX.cli.abc"}[tp.Intn("corrupt2", 6)]
				if tp.Intn("corrupt2", 2) == 0 {
					bad = nil
				}
				rc.Fault("odd-nats-status-header")
				what += fmt.Sprintf(" + status header %q on subject %s", strings.TrimSpace(string(hdr)), subj)
			}
			env.b.Route(subj, "", hdr, bad)
			settle(time.Second)
		case "nats-server":
			bad, w := corruptFrame(rc, reqFrame, false)
			what = w
			env.b.Route("svc", "_INBOX.ghost.1", nil, bad)
			settle(time.Second)
		case "http-server":
			bad, w := corruptFrame(rc, reqFrame, false)
			what = w
			body := base64.StdEncoding.EncodeToString(bad)
			switch tp.Intn("cfg", 4) {
			case 0:
				body = body[:len(body)/2] + "!!" // invalid base64
				what += " + invalid base64"
			case 1:
				body = string(bad) // not base64 at all
				what += " raw (not base64)"
			}
			var rd io.Reader = strings.NewReader(body)
			switch tp.Intn("corrupt2", 6) {
			case 1:
				rd = strings.NewReader("")
				what += " + empty body"
				rc.Fault("http-empty-body")
			case 2:
				rd = io.MultiReader(strings.NewReader(body[:len(body)/2]), failingReader{})
				what += " + body read fails half way"
				rc.Fault("http-body-read-error")
			case 3:
				rd = strings.NewReader(body + "\r\n")
				what += " + trailing CRLF"
			}
			req := httptest.NewRequest("POST", "http://sim/frugal", rd)
			if k := tp.Intn("corrupt2", 4); k == 1 {
				vs := []string{"+5", " 12", "1e3", "9223372036854775807", "9223372036854775808", "", "0x10", "12 ", "-0"}
				req.Header.Set("x-frugal-payload-limit", vs[tp.Intn("corrupt2", len(vs))])
				if tp.Intn("corrupt2", 2) == 0 {
					req.Header.Add("x-frugal-payload-limit", vs[tp.Intn("corrupt2", len(vs))])
				}
				rc.Fault("odd-payload-limit-header")
				what += fmt.Sprintf(" + payload limit header %q", req.Header["X-Frugal-Payload-Limit"])
			} else if tp.Intn("cfg", 3) == 0 {
				req.Header.Set("x-frugal-payload-limit", []string{"-1", "abc", "0", "99999999999999999999"}[tp.Intn("cfg", 4)])
			}
			rec := httptest.NewRecorder()
			env.rawHTTP(rec, req)
		case "http-client":
			garbleNext = true
			h := env.rawHTTP
			env.rawHTTP = func(w2 http.ResponseWriter, r2 *http.Request) {
				if !garbleNext {
					h(w2, r2)
					return
				}
				garbleNext = false
				bad, w := corruptFrame(rc, repFrame, false)
				what = w
				body := base64.StdEncoding.EncodeToString(bad)
				switch tp.Intn("cfg", 4) {
				case 0:
					body = body[:len(body)/2] + "!!"
				case 1:
					body = string(bad)
				case 2:
					w2.WriteHeader([]int{500, 404, 413, 302}[tp.Intn("cfg", 4)])
				}
				w2.Write([]byte(body))
			}
			if err := call("garbled"); err == nil {
				// a corrupted reply may by chance still decode; nothing to assert here
				_ = err
			}
		}
		canaryErr = call("canary")
		env.shutdown()
		finished = true
	})
	s.Run(func() bool { return finished && env.quiet() })

	where := fmt.Sprintf("entry %s (%s), corruption: %s", entry, env.proto, what)
	switch {
	case infra != "":
		rc.Violate("INFRA", "setup", key, infra)
	case !finished:
		rc.Violate("C05", "system-wedged", key, where+": the system did not get through canary and shutdown within the horizon")
	default:
		if warmErr != nil {
			rc.Violate("INFRA", "warm-up-call-failed", key, warmErr.Error())
		}
		if canaryErr != nil {
			rc.Violate("C05", "canary-failed", key, fmt.Sprintf("%s: a well-formed call afterwards failed: %v", where, canaryErr))
		}
		_ = closedCause
		if entry == "adapter-client" && hostilePrefix && !closedSeen {
			// a frame announcing 2 GiB or more can never be received, and skipping it is impossible on a stream
			// (nobody knows where the next frame starts): the only sound reaction is to give the connection up
			// and say so. A transport that stays "open" here feeds on garbage and swallows every later response.
			rc.Violate("C05", "desynchronised-stream-kept-open", key, where+": the frame size prefix announced >= 2^31-1 bytes and more bytes followed, yet the transport neither closed nor reported a cause")
		}
	}
	s.Shutdown()
	env.kill()
}

type failingReader struct{}

func (failingReader) Read([]byte) (int, error) { return 0, fmt.Errorf("simulated body read failure") }

// ids far from anything a few flipped bits of the corrupted template (id 555) can decode to
const warmID, canaryID = int64(7777000001), int64(7777000002)

func corruptSubscriber(rc *RunCtx, s *simrt.Sim, entry, proto string) {
	extraBad := ""
	tp := rc.Tape
	pf := frugal.NewFProtocolFactory(protoFactory(proto))
	var nb *SimBroker
	var sb *SimStomp
	finished := false
	var infra, what string
	got := map[int64]int{}
	key := entry
	workers := 1 + tp.Intn("cfg", 3)
	s.GoRoot("main", "main", func() {
		var pubF frugal.FPublisherTransportFactory
		var subF frugal.FSubscriberTransportFactory
		var inject func([]byte)
		if entry == "nats-subscriber" {
			nb = NewSimBroker(rc)
			pc, err := nb.Connect("pub")
			if err != nil {
				infra = err.Error()
				finished = true
				return
			}
			sc, _ := nb.Connect("sub")
			pubF = frugal.NewFNatsPublisherTransportFactory(pc)
			subF = frugal.NewFNatsSubscriberFactoryBuilder(sc).WithWorkerCount(uint(workers)).Build()
			inject = func(b []byte) { nb.Route("frugal.sim.u.Events.ItemCreated", "", nil, b) }
		} else {
			sb = NewSimStomp(rc)
			pc, err := sb.Connect()
			if err != nil {
				infra = err.Error()
				finished = true
				return
			}
			sc, _ := sb.Connect()
			pubF = frugal.NewFStompPublisherTransportFactoryBuilder(pc).Build()
			subF = frugal.NewFStompSubscriberTransportFactoryBuilder(sc).Build()
			inject = func(b []byte) { sb.Route("/topic/frugal.sim.u.Events.ItemCreated", b) }
		}
		provider := frugal.NewFScopeProvider(pubF, subF, pf)
		pub := simsvc.NewEventsPublisher(provider)
		pub.Open()
		sub := simsvc.NewEventsSubscriber(provider)
		if _, err := sub.SubscribeItemCreated("u", func(ctx frugal.FContext, it *simsvc.Item) { got[it.ID]++ }); err != nil {
			infra = err.Error()
			finished = true
			return
		}
		settle(10 * time.Millisecond)
		pub.PublishItemCreated(frugal.NewFContext("c"), "u", genItem(tp, warmID))
		settle(time.Second)
		valid := EncodeFrame(map[string]string{"_opid": "9", "_cid": "c"}, rawMessage(proto, "ItemCreated", thrift.CALL, []rawField{{1, thrift.I64, int64(555)}}))
		n := 1 + tp.Intn("cfg", 3)
		for i := 0; i < n; i++ {
			bad, w := corruptFrame(rc, valid, false)
			what += w + "; "
			inject(bad)
		}
		settle(time.Second)
		extra := 0
		if sb != nil && tp.Intn("corrupt2", 3) == 1 {
			// STOMP level: MESSAGE frames that lack the header an acknowledgement needs, then a run of good ones -
			// more than any queue of pending acknowledgements holds
			rc.Fault("stomp-message-without-ack-header")
			sb.OmitAckNext = 1 + tp.Intn("corrupt2", 2)
			for i := 0; i < 2; i++ {
				pub.PublishItemCreated(frugal.NewFContext("c"), "u", genItem(tp, canaryID+100+int64(i)))
			}
			settle(time.Second)
			sb.OmitAckNext = 0
			extra = 8 + tp.Intn("corrupt2", 8)
			for i := 0; i < extra; i++ {
				pub.PublishItemCreated(frugal.NewFContext("c"), "u", genItem(tp, canaryID+1+int64(i)))
			}
			what += fmt.Sprintf("MESSAGE frames without ack header, then %d well-formed messages; ", extra)
			settle(time.Second)
		}
		pub.PublishItemCreated(frugal.NewFContext("c"), "u", genItem(tp, canaryID))
		settle(time.Second)
		for i := 0; i < extra; i++ {
			if got[canaryID+1+int64(i)] != 1 && extraBad == "" {
				extraBad = fmt.Sprintf("well-formed message %d of %d published afterwards was delivered %d times", i+1, extra, got[canaryID+1+int64(i)])
			}
		}
		finished = true
	})
	s.Run(func() bool {
		return finished && (nb == nil || nb.Pending() == 0) && (sb == nil || sb.Pending() == 0)
	})
	where := fmt.Sprintf("entry %s (%s, workers=%d), corruption: %s", entry, proto, workers, what)
	switch {
	case infra != "":
		rc.Violate("INFRA", "setup", key, infra)
	case !finished:
		rc.Violate("C05", "system-wedged", key, where)
	default:
		if got[warmID] != 1 {
			rc.Violate("INFRA", "warm-up-publish-not-delivered", key, fmt.Sprint(got))
		} else if got[canaryID] != 1 {
			rc.Violate("C05", "canary-failed", key, fmt.Sprintf("%s: a well-formed message published afterwards was delivered %d times", where, got[canaryID]))
		} else if extraBad != "" {
			rc.Violate("C05", "canary-failed", key, where+": "+extraBad)
		}
	}
	s.Shutdown()
	if nb != nil {
		nb.Kill()
	}
	if sb != nil {
		sb.Kill()
	}
}
