package harness

import (
	"fmt"
	"io"
	"strings"
	"time"

	frugal "github.com/Workiva/frugal/lib/go"
	"github.com/apache/thrift/lib/go/thrift"
	"github.com/nats-io/nats.go"
	"verif/simrt"
)

// lifecycle harness (DESIGN.md §3 C15): a user task performs a history of
// Open/Close/IsOpen/Request operations on the real adapter transport with the
// real monitor runner while the stream under it ends or fails at chosen
// points. In "enum" mode the first epoch's fault point is enumerated from the
// run index (every cut offset of a fixed 3-frame stream as EOF and as error,
// every read/write/flush call index), everything else stays random.

type lcEpoch struct {
	id              int
	openedBy        string
	faultKind       string // "", "eof", "err"
	faultAt         int
	faultConsumed   bool
	consumedStep    int
	userClose       bool
	streamClosed    bool
	closedStep      int
	values          []error
	chanClosed      bool
	watched         bool
	planned         bool
	monIdleAtClose  bool
	monAliveAtClose bool
}

type lcMonEvent struct {
	kind   string // clean, unclean, reopen-failed, reopen-succeeded, open-attempt
	step   int
	at     time.Duration
	cause  error
	reopen bool
	wait   time.Duration
	prev   uint
	ok     bool
	isOpen bool
}

type lifecycle struct {
	rc                        *RunCtx
	s                         *simrt.Sim
	st                        *SimStream
	tr                        frugal.FTransport
	epochs                    []*lcEpoch
	mon                       []lcMonEvent
	monTask                   string
	monSet, monAlive, monBusy bool
	mon2Step                  int // step at which a second (unrecorded) monitor replaced the recorded one; 0 = never
	maxAtt                    uint
	initW, maxW               time.Duration
	openFailsLeft             int
	closeFailsLeft            int
	enumPoint                 int
	enumKind                  string
	enumUsed                  bool
	nFaultEpochs              int
	inbound                   []byte
	reqN                      int
	userOps                   []string
	afterOpen                 func()
	closeWhileBusy            bool
	openWhileOpen             map[string]bool
}

type recMonitor struct {
	lc   *lifecycle
	base *frugal.BaseFTransportMonitor
}

// rearmMonitor: counts what it is told and never asks for a reopen.
type rearmMonitor struct{ clean, unclean int }

func (m *rearmMonitor) OnClosedCleanly() { m.clean++ }
func (m *rearmMonitor) OnClosedUncleanly(cause error) (bool, time.Duration) {
	m.unclean++
	return false, 0
}
func (m *rearmMonitor) OnReopenFailed(prev uint, prevWait time.Duration) (bool, time.Duration) {
	return false, 0
}
func (m *rearmMonitor) OnReopenSucceeded() {}

func (m *recMonitor) note() {
	if m.lc.monTask == "" {
		m.lc.monTask = simrt.TaskID()
	}
}

func (m *recMonitor) OnClosedCleanly() {
	m.note()
	m.base.OnClosedCleanly()
	m.lc.mon = append(m.lc.mon, lcMonEvent{kind: "clean", step: m.lc.s.Step, at: m.lc.s.Now()})
	m.lc.monAlive = false
}

func (m *recMonitor) OnClosedUncleanly(cause error) (bool, time.Duration) {
	m.note()
	r, w := m.base.OnClosedUncleanly(cause)
	if r && m.lc.rc.Tape.Intn("env", 2) == 0 {
		// the peer stays unreachable for the first attempts of this outage
		m.lc.openFailsLeft = 1 + m.lc.rc.Tape.Intn("env", 6)
		m.lc.rc.Probe("reopen-attempts-failing")
	}
	m.lc.mon = append(m.lc.mon, lcMonEvent{kind: "unclean", step: m.lc.s.Step, at: m.lc.s.Now(), cause: cause, reopen: r, wait: w})
	if r {
		m.lc.monBusy = true
	} else {
		m.lc.monAlive = false
	}
	return r, w
}

func (m *recMonitor) OnReopenFailed(prev uint, prevWait time.Duration) (bool, time.Duration) {
	m.note()
	{
		// a reopen attempt has just failed. If the transport is open at this moment, on a connection the runner
		// itself opened (no user Open raced with it) that has not failed, the runner is acting on a close signal
		// that belongs to the past: it will burn its attempts on ALREADY_OPEN and leave an open transport
		// without a monitor
		if e := m.lc.cur(); e != nil && e.openedBy == "monitor" && !e.streamClosed && !e.faultConsumed && !e.userClose && m.lc.tr.IsOpen() {
			m.lc.rc.Violate("C15", "monitor-reopens-a-healthy-connection-it-opened", "adapter",
				fmt.Sprintf("reopen attempt %d failed because epoch %d - opened by the monitor itself and healthy - is open", prev, e.id))
		}
	}
	delete(m.lc.openWhileOpen, simrt.TaskID())
	r, w := m.base.OnReopenFailed(prev, prevWait)
	m.lc.mon = append(m.lc.mon, lcMonEvent{kind: "reopen-failed", step: m.lc.s.Step, at: m.lc.s.Now(), reopen: r, wait: w, prev: prev})
	if !r {
		m.lc.monBusy = false
		m.lc.monAlive = false
	}
	return r, w
}

func (m *recMonitor) OnReopenSucceeded() {
	m.note()
	m.base.OnReopenSucceeded()
	if m.lc.openWhileOpen[simrt.TaskID()] {
		m.lc.rc.Violate("C15", "double-open", "adapter", "the monitor's Open() returned nil although the connection was already open (a second read loop now runs on it)")
	}
	isOpen := m.lc.tr.IsOpen()
	exp, det := m.lc.modelOpen()
	userClosing := false
	if e := m.lc.cur(); e != nil {
		userClosing = e.userClose
	}
	m.lc.mon = append(m.lc.mon, lcMonEvent{kind: "reopen-succeeded", step: m.lc.s.Step, at: m.lc.s.Now(), isOpen: isOpen, ok: exp && det && !userClosing})
	m.lc.monBusy = false
	m.lc.afterOpen()
}

func lcInbound() []byte {
	var b []byte
	for i := 0; i < 3; i++ {
		b = append(b, EncodeFrame(map[string]string{"_opid": fmt.Sprint(900000 + i), "_cid": "peer"}, []byte(strings.Repeat("x", 3+5*i)))...)
	}
	return b
}

func init() { Register("lifecycle", lifecycleHarness) }

func (lc *lifecycle) cur() *lcEpoch {
	if len(lc.epochs) == 0 {
		return nil
	}
	return lc.epochs[len(lc.epochs)-1]
}

func (lc *lifecycle) modelOpen() (open bool, determinate bool) {
	e := lc.cur()
	if e == nil {
		return false, true
	}
	if e.streamClosed {
		return false, true
	}
	if e.faultConsumed {
		return false, false // failure seen by the reader but close not performed: flagged elsewhere
	}
	return true, true
}

// natsLifecycle: the stateless NATS client transport's life cycle (the other
// client transport named by C15's anchors): Open/Close/IsOpen/Closed() and
// Request around closes, including the broker dropping the connection.
func natsLifecycle(rc *RunCtx) {
	tp := rc.Tape
	s := rc.NewSim(30000, 10*time.Minute)
	rc.Nontrivial = true
	rc.Sample["transport"] = "nats"
	b := NewSimBroker(rc)
	evN := 0
	b.OnPublish = func(c *BrokerConn, subject, reply string, hdr, data []byte) bool {
		if subject != "svc" {
			return false
		}
		f, err := DecodeFrame(data)
		if err != nil {
			return true
		}
		evN++
		body := EncodeFrame(map[string]string{"_opid": f.Headers["_opid"], "tag": f.Headers["tag"]}, []byte("resp"))
		s.AddEvent(fmt.Sprintf("peer:%03d:answer", evN), 0, func() { b.Route(reply, "", nil, body) })
		return true
	}
	finished := false
	var opLog []string
	typeID := func(err error) int {
		if te, ok := err.(thrift.TTransportException); ok {
			return te.TypeId()
		}
		return -1
	}
	reconnecting := tp.Intn("reconnect", 2) == 1
	if reconnecting {
		// a client that rides out server restarts: between servers its status is RECONNECTING
		b.ConnOptions = append(b.ConnOptions, func(o *nats.Options) error {
			o.AllowReconnect, o.MaxReconnect, o.ReconnectWait, o.NoRandomize = true, -1, 20*time.Millisecond, true
			o.ReconnectJitter, o.ReconnectJitterTLS = 0, 0
			return nil
		})
	}
	s.GoRoot("user", "user", func() {
		nc, err := b.Connect("client")
		if err != nil {
			rc.Violate("INFRA", "connect", "nats", err.Error())
			finished = true
			return
		}
		tr := frugal.NewFNatsTransport(nc, "svc", "_INBOX.lc")
		open, dropped := false, false
		down := false
		closedDuringOutage := false
		serverOp := func() {
			if down {
				rc.Fault("nats-server-back")
				b.ComeBack()
				settle(200 * time.Millisecond) // several reconnect attempts later the client is connected again
				down = false
				opLog = append(opLog, "server-back")
				if closedDuringOutage && !open {
					closedDuringOutage = false
					if tr.IsOpen() {
						rc.Violate("C15", "isopen-inconsistent", "nats", fmt.Sprintf("Close() during an outage returned nil, and with the connection back IsOpen() is true again; ops %v", opLog))
					}
				}
			} else {
				rc.Fault("nats-server-down-client-reconnecting")
				b.GoDown()
				settle(5 * time.Millisecond)
				down = true
				opLog = append(opLog, "server-down")
			}
		}
		var closedCh <-chan error
		n := 3 + tp.Intn("ops", rc.Scale(10, 24))
		reqN := 0
		for i := 0; i < n; i++ {
			settle(time.Millisecond)
			if reconnecting && !dropped && tp.Intn("reconnect", 5) == 4 {
				serverOp()
				continue
			}
			if down {
				// while the client is between servers the transport is not usable and must say so
				if open && tp.Intn("closedown", 4) == 3 {
					// the application closes the transport during the outage: closed is closed, also once the
					// connection is back
					err := tr.Close()
					opLog = append(opLog, fmt.Sprintf("close(down)->%v", err))
					rc.Fault("nats-close-while-reconnecting")
					if err == nil {
						open = false
						closedDuringOutage = true
					}
					continue
				}
				switch tp.Intn("ops", 3) {
				case 0:
					err := tr.Open()
					opLog = append(opLog, fmt.Sprintf("open(down)->%v", err))
					if err == nil {
						rc.Violate("C15", "nats-open-while-reconnecting", "nats", fmt.Sprintf("Open returned nil while the connection was RECONNECTING (IsOpen now %v); ops %v", tr.IsOpen(), opLog))
						open = true
					}
				case 1:
					if got := tr.IsOpen(); got {
						rc.Violate("C15", "isopen-inconsistent", "nats", fmt.Sprintf("IsOpen()=true while the connection is RECONNECTING; ops %v", opLog))
					}
				default:
					ctx := frugal.NewFContext("lc")
					ctx.SetTimeout(50 * time.Millisecond)
					_, err := tr.Request(ctx, EncodeFrame(ctx.RequestHeaders(), []byte("req")))
					if typeID(err) != thrift.NOT_OPEN {
						rc.Violate("C15", "request-on-closed-not-reported", "nats", fmt.Sprintf("Request while RECONNECTING returned %v", err))
					}
				}
				continue
			}
			switch tp.Intn("ops", 6) {
			case 0:
				err := tr.Open()
				opLog = append(opLog, fmt.Sprintf("open->%v", err))
				switch {
				case dropped:
					if err == nil {
						rc.Violate("C15", "nats-open-on-dead-connection", "nats", "Open succeeded although the NATS connection is closed")
					}
				case open && typeID(err) != thrift.ALREADY_OPEN:
					rc.Violate("C15", "open-on-open-not-reported", "nats", fmt.Sprintf("Open on an open NATS transport returned %v", err))
				case !open && err != nil:
					rc.Violate("C15", "open-on-closed-failed", "nats", fmt.Sprintf("Open on a closed NATS transport returned %v", err))
				}
				if !open && err == nil {
					open = true
					closedCh = tr.Closed()
				}
			case 1:
				err := tr.Close()
				opLog = append(opLog, fmt.Sprintf("close->%v", err))
				if err != nil && !dropped {
					rc.Violate("C15", "nats-close-failed", "nats", fmt.Sprintf("Close returned %v (open=%v)", err, open))
				}
				if open && err == nil {
					open = false
					settle(time.Millisecond)
					select {
					case c, ok := <-closedCh:
						if !ok || c != nil {
							rc.Violate("C15", "close-cause-count", "nats", fmt.Sprintf("after a clean Close, Closed() yielded (%v, open=%v)", c, ok))
						}
					default:
						rc.Violate("C15", "close-cause-count", "nats", "after Close, Closed() yielded nothing")
					}
				}
			case 2:
				got := tr.IsOpen()
				opLog = append(opLog, fmt.Sprintf("isopen->%v", got))
				if got != (open && !dropped) {
					rc.Violate("C15", "isopen-inconsistent", "nats", fmt.Sprintf("IsOpen()=%v, expected %v (dropped=%v); ops %v", got, open && !dropped, dropped, opLog))
				}
			case 3, 4:
				reqN++
				ctx := frugal.NewFContext("lc")
				ctx.SetTimeout(200 * time.Millisecond)
				h := ctx.RequestHeaders()
				h["tag"] = fmt.Sprintf("q%d", reqN)
				_, err := tr.Request(ctx, EncodeFrame(h, []byte("req")))
				opLog = append(opLog, fmt.Sprintf("request->%v", err))
				if open && !dropped && err != nil {
					rc.Violate("C15", "request-on-open-transport-failed", "nats", fmt.Sprintf("%v; ops %v", err, opLog))
				}
				if (!open || dropped) && typeID(err) != thrift.NOT_OPEN {
					rc.Violate("C15", "request-on-closed-not-reported", "nats", fmt.Sprintf("Request on a closed NATS transport returned %v", err))
				}
			case 5:
				if !dropped && tp.Intn("ops", 3) == 0 {
					// the broker goes away: the client connection closes (no reconnect configured)
					rc.Fault("nats-connection-closed")
					dropped = true
					nc.Close()
					opLog = append(opLog, "connection-closed")
				}
			}
		}
		if open && !dropped {
			tr.Close()
		}
		finished = true
	})
	s.Run(func() bool { return finished && b.Pending() == 0 })
	rc.Sample["ops"] = opLog
	if !finished {
		rc.Violate("C15", "user-op-never-returned", "nats", fmt.Sprintf("ops %v", opLog))
	}
	s.Shutdown()
	b.Kill()
}

func lifecycleHarness(rc *RunCtx) {
	tp := rc.Tape
	if rc.Params["enum"] != "1" || int(rc.Seed&0xffffffff)%9 == 8 {
		if rc.Params["transport"] == "nats" || int(rc.Seed&0xffffffff)%9 == 8 {
			natsLifecycle(rc)
			return
		}
	}
	s := rc.NewSim(rc.Scale(20000, 60000), 30*time.Minute)
	lc := &lifecycle{rc: rc, s: s, inbound: lcInbound(), enumPoint: -1}
	st := NewSimStream(rc, "c0")
	lc.st = st
	tr := frugal.NewAdapterTransport(st)
	lc.tr = tr
	rc.Nontrivial = true
	L := len(lc.inbound)
	// enumeration of the first epoch's fault point
	nPoints := 2*(L+1) + 8 + 3 + 3
	if rc.Params["enum"] == "1" {
		p := int(rc.Seed&0xffffffff) % nPoints
		lc.enumPoint = p
		rc.Sample["enum_point"] = p
		rc.Sim.Count(fmt.Sprintf("point:%03d", p))
	}
	rc.Sample["fault_points"] = nPoints
	useMon := tp.Intn("cfg", 5) != 0
	lc.maxAtt = uint(tp.Intn("cfg", 7))
	// not only power-of-two multiples of each other: the backoff doubles and is capped
	waits := []time.Duration{0, time.Millisecond, 3 * time.Millisecond, 4 * time.Millisecond, 7 * time.Millisecond, 50 * time.Millisecond, 70 * time.Millisecond, time.Second, 2 * time.Second}
	lc.initW = waits[tp.Intn("cfg", len(waits))]
	lc.maxW = waits[tp.Intn("cfg", len(waits))]
	if lc.initW > lc.maxW && tp.Intn("cfg", 4) != 0 {
		lc.initW, lc.maxW = lc.maxW, lc.initW
	}
	lc.openFailsLeft = 0
	rc.Sample["monitor"] = useMon
	rc.Sample["max_attempts"] = lc.maxAtt
	rc.Sample["initial_wait"] = lc.initW.String()
	rc.Sample["max_wait"] = lc.maxW.String()

	var readFaultAt, writeFaultAt, flushFaultAt = -1, -1, -1
	firstEpochPlanned := false
	planEpoch := func(e *lcEpoch) {
		// take the epoch's Closed() channel before any inbound byte exists:
		// Closed() is a scheduling point, and the epoch may end meanwhile
		ch := tr.Closed()
		if lc.cur() != e || e.streamClosed {
			return
		}
		kind, at := "", 0
		if !firstEpochPlanned && lc.enumPoint >= 0 {
			p := lc.enumPoint
			switch {
			case p < L+1:
				kind, at = "eof", p
			case p < 2*(L+1):
				kind, at = "err", p-(L+1)
			case p < 2*(L+1)+8:
				readFaultAt = st.Reads + (p - 2*(L+1))
				kind, at = "", 0
			case p < 2*(L+1)+8+3:
				writeFaultAt = p - 2*(L+1) - 8
			default:
				flushFaultAt = p - 2*(L+1) - 8 - 3
			}
		} else if lc.nFaultEpochs < rc.Scale(5, 10) {
			switch tp.Intn("env", 5) {
			case 0, 1:
				kind, at = "eof", tp.Intn("env", L+1)
			case 2, 3:
				kind, at = "err", tp.Intn("env", L+1)
			}
		}
		firstEpochPlanned = true
		if kind != "" {
			lc.nFaultEpochs++
			e.faultKind, e.faultAt = kind, at
			if at > 0 {
				st.PeerWrite(lc.inbound[:at])
			}
			if kind == "eof" {
				st.PeerEnd(nil)
				rc.Fault("eof-at-offset")
			} else {
				if tp.Intn("errkind", 3) == 2 {
					// what a socket with a read timeout reports when the peer stalls (TSocket with SocketTimeout): a failed
					// read like any other
					st.PeerEnd(thrift.NewTTransportException(thrift.TIMED_OUT, "read tcp 127.0.0.1:9090: i/o timeout"))
					rc.Fault("read-error-of-type-timed-out")
				} else {
					st.PeerEnd(ErrReset())
				}
				rc.Fault("read-error-at-offset")
			}
			if at > 0 && at < 4 {
				rc.Probe("cut-inside-frame-size-prefix")
			}
			if len(lc.epochs) >= 2 {
				rc.Probe("failure-after-a-reopen")
			}
			if len(lc.epochs) >= 3 {
				rc.Probe("third-epoch-failure")
			}
		} else {
			st.PeerWrite(lc.inbound)
		}
		// watch this epoch's Closed() channel
		if ch != nil {
			e.watched = true
			siteW := simrt.HarnessSite("lc.closed-watch")
			s.Go("watcher", func() {
				for {
					v, ok := simrt.Recv2(siteW, ch)
					if !ok {
						e.chanClosed = true
						return
					}
					e.values = append(e.values, v)
				}
			})
		}
	}
	st.OnOpen = func(ep int) {
		// runs inside fAdapterTransport.Open with its lock held: only record
		// the epoch here; what needs tr.Closed() happens in afterOpen
		e := &lcEpoch{id: ep, openedBy: "user"}
		if t := simrt.TaskID(); t != "" && t == lc.monTask {
			e.openedBy = "monitor"
			if lc.nFaultEpochs < rc.Scale(5, 10) && tp.Intn("dieatonce", 4) == 3 {
				// the connection the monitor has just made dies at once (a second failure in a row), possibly
				// before the monitor's runner has even looked at its new transport
				e.planned = true
				lc.nFaultEpochs++
				e.faultKind = []string{"eof", "err"}[tp.Intn("dieatonce", 2)]
				kind := e.faultKind
				rc.Fault("reopened-connection-dies-at-once")
				s.AddEvent(fmt.Sprintf("net:epoch%d-dies-at-once", ep), 0, func() {
					if kind == "eof" {
						st.PeerEnd(nil)
					} else {
						st.PeerEnd(ErrReset())
					}
				})
			}
		}
		lc.epochs = append(lc.epochs, e)
	}
	// afterOpen is called by whoever opened, right after Open returned (user
	// op or the monitor's OnReopenSucceeded): inbound traffic, the fault plan
	// and the Closed() watcher of the current epoch.
	afterOpen := func() {
		if e := lc.cur(); e != nil && !e.planned {
			e.planned = true
			if !e.streamClosed {
				planEpoch(e)
			}
		}
	}
	lc.afterOpen = afterOpen
	st.OnClose = func(ep int) {
		if e := lc.cur(); e != nil && e.id == ep {
			e.streamClosed = true
			e.closedStep = s.Step
			if simrt.TaskID() == "user" {
				// the close that ends this epoch is performed by the user's
				// Close(), whenever that call was invoked: a nil cause is right
				e.userClose = true
			}
			e.monAliveAtClose = lc.monSet && lc.monAlive
			e.monIdleAtClose = lc.monSet && lc.monAlive && !lc.monBusy && !lc.closeWhileBusy
			if lc.monSet && lc.monAlive && lc.monBusy {
				lc.closeWhileBusy = true
			}
		}
	}
	openWhileOpen := map[string]bool{}
	lc.openWhileOpen = openWhileOpen
	st.OnOpenWhileOpen = func() { openWhileOpen[simrt.TaskID()] = true }
	staleReader := false
	st.OnStaleRead = func(readerEpoch, ep int) {
		if !staleReader {
			staleReader = true
			rc.Violate("C15", "stale-read-loop", "late-started read loop of a closed open reads the reopened stream",
				fmt.Sprintf("the read loop started by open #%d first ran after that open had been closed and the transport reopened (open #%d): two read loops now consume one connection", readerEpoch, ep))
		}
	}
	st.OnReadErr = func(ep int, err error) {
		if e := lc.cur(); e != nil && e.id == ep && !e.faultConsumed {
			e.faultConsumed = true
			e.consumedStep = s.Step
		}
	}
	st.OpenFault = func(i int) error {
		if t := simrt.TaskID(); t != "" && t == lc.monTask {
			lc.mon = append(lc.mon, lcMonEvent{kind: "open-attempt", step: s.Step, at: s.Now()})
		}
		if lc.openFailsLeft > 0 {
			lc.openFailsLeft--
			rc.Fault("open-fails")
			return thrift.NewTTransportException(thrift.NOT_OPEN, "dial: connection refused")
		}
		return nil
	}
	st.CloseFault = func(i int) error {
		if lc.closeFailsLeft > 0 && simrt.TaskID() == "user" {
			lc.closeFailsLeft--
			rc.Fault("close-fails")
			return thrift.NewTTransportException(thrift.UNKNOWN_TRANSPORT_EXCEPTION, "close: i/o error")
		}
		return nil
	}
	st.ReadFault = func(i int) error {
		if readFaultAt >= 0 && i == readFaultAt {
			readFaultAt = -1
			rc.Fault("read-call-error")
			if e := lc.cur(); e != nil {
				e.faultKind = "err"
				e.faultConsumed = true
				e.consumedStep = s.Step
			}
			return ErrReset()
		}
		return nil
	}
	breakConn := func() {
		// a failed write means the connection is broken: the read side fails too
		if e := lc.cur(); e != nil && e.faultKind == "" {
			e.faultKind = "err"
			lc.nFaultEpochs++
		}
		st.PeerEnd(ErrReset())
	}
	st.WriteFault = func(i int, p []byte) (error, bool) {
		if writeFaultAt >= 0 && i == writeFaultAt {
			writeFaultAt = -1
			rc.Fault("write-call-error")
			breakConn()
			return thrift.NewTTransportException(thrift.UNKNOWN_TRANSPORT_EXCEPTION, "write: broken pipe"), false
		}
		return nil, false
	}
	st.FlushFault = func(i int) (error, bool) {
		if flushFaultAt >= 0 && i == flushFaultAt {
			flushFaultAt = -1
			rc.Fault("flush-call-error")
			breakConn()
			return thrift.NewTTransportException(thrift.UNKNOWN_TRANSPORT_EXCEPTION, "flush: broken pipe"), false
		}
		return nil, false
	}
	// peer answers requests
	evN := 0
	st.OnFrame = func(frame []byte) {
		f, err := DecodeFrame(frame)
		if err != nil {
			return
		}
		evN++
		body := EncodeFrame(map[string]string{"_opid": f.Headers["_opid"], "tag": f.Headers["tag"]}, []byte("resp:"+f.Headers["tag"]))
		s.AddEvent(fmt.Sprintf("peer:%03d:answer", evN), 0, func() { st.PeerWrite(body) })
	}

	finished := false
	siteSettle := simrt.HarnessSite("lc.settle")
	undetected := false
	settle := func(d time.Duration) {
		simrt.Block(siteSettle)
		// the odd offset keeps this wake-up from coinciding with any timer of
		// the system (all of those are whole milliseconds): when it returns,
		// everything that became runnable earlier has run to a blocked state
		time.Sleep(d + 1777*time.Nanosecond)
		simrt.Yield(siteSettle)
		// simulated time has passed, so everything runnable has run: a failure
		// the read loop has seen must have closed the transport by now
		if e := lc.cur(); e != nil && e.faultConsumed && !e.streamClosed && !undetected && !staleReader {
			undetected = true
			rc.Violate("C15", "failure-undetected", "adapter "+e.faultKind,
				fmt.Sprintf("epoch %d (opened by %s): the read loop saw the stream %s at step %d, yet the transport is still not closed after the system went quiet (IsOpen()=%v)",
					e.id, e.openedBy, e.faultKind, e.consumedStep, tr.IsOpen()))
		}
	}
	var opLog []string
	type opRes struct {
		kind                  string
		settled               bool
		err                   error
		b                     bool
		expOpen               bool
		det                   bool
		monBusy               bool
		openFault, closeFault bool
		idx                   int
	}
	var results []opRes
	typeID := func(err error) int {
		if te, ok := err.(thrift.TTransportException); ok {
			return te.TypeId()
		}
		return -1
	}
	doOp := func(kind string, settled bool) {
		exp, det := lc.modelOpen()
		r := opRes{kind: kind, settled: settled, expOpen: exp, det: det, monBusy: lc.monBusy, idx: len(results)}
		switch kind {
		case "open":
			if tp.Intn("ops", 6) == 0 {
				lc.openFailsLeft = 1 + tp.Intn("ops", 3)
			}
			r.openFault = lc.openFailsLeft > 0
			delete(openWhileOpen, "user")
			r.err = tr.Open()
			if r.err == nil && openWhileOpen["user"] && !staleReader {
				rc.Violate("C15", "double-open", "adapter", fmt.Sprintf("op %d: Open() returned nil although the connection was already open (a second read loop now runs on it)", r.idx))
			}
			if r.err == nil {
				afterOpen()
			}
		case "close":
			if tp.Intn("ops", 8) == 0 && settled && exp && det && !lc.monBusy {
				lc.closeFailsLeft = 1
			}
			r.closeFault = lc.closeFailsLeft > 0
			if e := lc.cur(); e != nil && !e.streamClosed {
				e.userClose = true
			}
			r.err = tr.Close()
			lc.closeFailsLeft = 0
		case "isopen":
			r.b = tr.IsOpen()
		case "closedq":
			// somebody who asks only now, after the close: the channel handed out must already have fired.
			// (probed only once this epoch's own watcher has drained the channel, so that nothing is taken from it)
			e := lc.cur()
			if e == nil || !e.watched || len(e.values) != 1 || !e.chanClosed {
				r.det = false
				break
			}
			select {
			case <-tr.Closed():
				r.b = true
			default:
				r.b = false
			}
		case "request":
			lc.reqN++
			ctx := frugal.NewFContext("lc")
			ctx.SetTimeout(100 * time.Millisecond)
			h := ctx.RequestHeaders()
			h["tag"] = fmt.Sprintf("q%d", lc.reqN)
			res, err := tr.Request(ctx, EncodeFrame(h, []byte("req")))
			r.err = err
			if err == nil && res != nil {
				b, _ := io.ReadAll(res)
				if f, e2 := DecodeBody(b); e2 != nil || f.Headers["tag"] != h["tag"] {
					rc.Violate("C15", "request-wrong-data", "adapter", fmt.Sprintf("request %s got %q", h["tag"], b))
				}
			}
		}
		results = append(results, r)
		opLog = append(opLog, fmt.Sprintf("%s(settled=%v)->%v/%v", kind, settled, r.err, r.b))
	}

	var sockRan, sockCloseRet, sockAskRet, stallRan bool
	var stallBad string
	var rearmRan bool
	var rearmBad string
	s.GoRoot("user", "user", func() {
		if useMon {
			lc.monSet, lc.monAlive = true, true
			tr.SetMonitor(&recMonitor{lc: lc, base: &frugal.BaseFTransportMonitor{MaxReopenAttempts: lc.maxAtt, InitialWait: lc.initW, MaxWait: lc.maxW}})
		}
		doOp("open", true)
		n := 2 + tp.Intn("ops", rc.Scale(9, 24))
		if lc.enumPoint >= 0 {
			// make sure the enumerated write/flush/read indices are reached
			for i := 0; i < 3; i++ {
				doOp("request", false)
			}
		}
		for i := 0; i < n; i++ {
			k := tp.Intn("ops", 15)
			settled := false
			switch {
			case k < 3:
				settle(time.Millisecond)
				settled = true
			case k < 5:
				settle([]time.Duration{60 * time.Millisecond, 1100 * time.Millisecond, 5 * time.Second}[tp.Intn("ops", 3)])
				settled = true
			}
			// the monitor may have reopened meanwhile
			afterOpen()
			if tp.Intn("closedq", 6) == 5 {
				doOp("closedq", settled)
			}
			switch tp.Intn("ops", 9) {
			case 0, 1:
				doOp("open", settled)
			case 2, 3:
				doOp("close", settled)
			case 4, 5:
				doOp("isopen", settled)
			default:
				doOp("request", settled)
			}
		}
		// canary: after everything settled the API must still answer
		settle(10 * time.Second)
		afterOpen()
		doOp("isopen", true)
		doOp("close", true)
		settle(10 * time.Second)
		afterOpen()
		if useMon && tp.Intn("setmon2", 3) == 2 {
			// the application installs another monitor on the transport it has used for a while (whatever state the
			// first monitor's runner is in by now): that call returns, and the transport's API keeps answering
			rc.Fault("second-SetMonitor-after-a-history")
			lc.mon2Step = s.Step
			tr.SetMonitor(&frugal.BaseFTransportMonitor{MaxReopenAttempts: 0})
			opLog = append(opLog, "SetMonitor#2")
			tr.IsOpen()
			tr.Close()
			settle(time.Second)
		}
		if tp.Intn("sockisopen", 4) == 1 {
			// The byte stream under the transport is a socket (thrift.TSocket, the usual choice): its IsOpen goes through
			// the descriptor's read lock, which the read loop's pending Read holds until bytes arrive or the socket is
			// closed. A fresh transport on a fresh stream, a quiet peer; somebody asks IsOpen, then the application closes.
			rc.Fault("isopen-waits-behind-the-pending-read-like-a-socket")
			st2 := NewSimStream(rc, "sock")
			tr2 := frugal.NewAdapterTransport(st2)
			if err := tr2.Open(); err == nil {
				settle(50 * time.Millisecond)
				st2.SetSocketIsOpen(true)
				askRet, closeRet := false, false
				s.Go("isopen-asker", func() { tr2.IsOpen(); askRet = true })
				settle(time.Duration(1+tp.Intn("sockisopen", 20)) * time.Millisecond)
				s.Go("closer", func() { tr2.Close(); closeRet = true })
				settle(2 * time.Second)
				sockCloseRet, sockAskRet = closeRet, askRet
				sockRan = true
				st2.SetSocketIsOpen(false) // lets the run end whatever happened
				settle(time.Second)
			}
			st2.Kill()
		}
		if k := tp.Intn("wstall", 6); k == 1 || k == 2 {
			// A write that never completes (the peer stopped reading) must not keep the transport from being closed: by the
			// application (k == 1) or by the read loop when the connection then fails (k == 2). A fresh transport again.
			rc.Fault("close-or-failure-while-a-write-is-stalled")
			st3 := NewSimStream(rc, "stalled")
			st3.WriteFault = func(i int, p []byte) (error, bool) { return nil, true }
			tr3 := frugal.NewAdapterTransport(st3)
			if err := tr3.Open(); err == nil {
				ch := tr3.Closed()
				reqRet := false
				s.Go("stalled-caller", func() {
					ctx := frugal.NewFContext("stalled")
					ctx.SetTimeout(50 * time.Millisecond)
					tr3.Request(ctx, EncodeFrame(ctx.RequestHeaders(), []byte("req")))
					reqRet = true
				})
				settle(200 * time.Millisecond)
				closeRet := k == 2
				if k == 1 {
					s.Go("closer", func() { tr3.Close(); closeRet = true })
				} else {
					st3.PeerEnd(ErrReset())
				}
				settle(2 * time.Second)
				signalled := false
				select {
				case <-ch:
					signalled = true
				default:
				}
				isOpenRet, stillOpen := false, false
				s.Go("isopen-asker", func() { stillOpen = tr3.IsOpen(); isOpenRet = true })
				settle(time.Second)
				stallRan = true
				if !reqRet || !closeRet || !signalled || !isOpenRet || stillOpen {
					stallBad = fmt.Sprintf("a request's write stalled for good (its caller timed out: %v); then %s; 2 s later: Close returned: %v, Closed() signalled: %v, IsOpen returned: %v (open: %v)",
						reqRet, map[int]string{1: "the application called Close()", 2: "the connection was reset (read side fails)"}[k], closeRet, signalled, isOpenRet, stillOpen)
				}
			}
			st3.Kill()
		}
		if k := tp.Intn("rearm", 6); k == 1 || k == 2 {
			// The runner of a monitor ends with a clean close (by design). An application that wants the next connection
			// watched as well installs its monitor again - the same object, it has only one - and opens. The failure that
			// follows must reach it. k == 2: the monitor is installed twice in a row before the first open as well (a
			// set-up routine that runs twice); each failure is still reported once.
			rc.Fault("monitor-installed-again-after-its-runner-ended")
			st4 := NewSimStream(rc, "rearm")
			tr4 := frugal.NewAdapterTransport(st4)
			m := &rearmMonitor{}
			tr4.SetMonitor(m)
			if k == 2 {
				tr4.SetMonitor(m)
			}
			if err := tr4.Open(); err == nil {
				settle(20 * time.Millisecond)
				tr4.Close()
				settle(100 * time.Millisecond)
				cleanBefore := m.clean
				tr4.SetMonitor(m)
				if err := tr4.Open(); err == nil {
					settle(20 * time.Millisecond)
					st4.PeerEnd(ErrReset())
					settle(2 * time.Second)
					rearmRan = true
					if m.unclean != 1 || cleanBefore < 1 {
						rearmBad = fmt.Sprintf("monitor installed (x%d), Open, Close (OnClosedCleanly calls so far: %d), the same monitor installed again, Open, connection reset: OnClosedUncleanly called %d times within 2 s (IsOpen now: %v)", k, cleanBefore, m.unclean, tr4.IsOpen())
					}
				}
			}
			st4.Kill()
		}
		finished = true
	})

	s.Run(func() bool { return finished && !lc.monBusy })
	if rearmRan && rearmBad != "" {
		rc.Violate("C15", "monitor-installed-again-not-notified", "adapter", rearmBad)
	}
	if stallRan && stallBad != "" {
		rc.Violate("C15", "not-closed-while-a-write-is-stalled", "adapter", stallBad)
	}
	if sockRan && (!sockCloseRet || !sockAskRet) {
		rc.Violate("C15", "close-blocked-behind-isopen", "adapter", fmt.Sprintf("the stream under the transport answers IsOpen the way thrift.TSocket does (after the read loop's pending Read): IsOpen() was called on the open, idle transport, then Close(); 2 s later Close had returned: %v, IsOpen had returned: %v (nothing but Close can end that Read on a quiet connection)", sockCloseRet, sockAskRet))
	}
	rc.Sample["ops"] = opLog
	rc.Sample["epochs"] = len(lc.epochs)

	// ---------------- oracles ----------------
	if staleReader {
		// two read loops on one connection steal each other's bytes: what
		// follows is unpredictable and already reported once, above
		s.Shutdown()
		st.Kill()
		return
	}
	if !finished {
		rc.Violate("C15", "user-op-never-returned", "adapter", fmt.Sprintf("the user task did not finish its %d operations within the horizon; log: %v", len(opLog), opLog))
	}
	if lc.monBusy {
		rc.Violate("C15", "monitor-reopen-never-finished", "adapter", "the monitor's reopen cycle did not finish within the horizon")
	}
	for _, r := range results {
		if !r.settled || !r.det || r.monBusy {
			continue
		}
		switch r.kind {
		case "open":
			if r.expOpen && typeID(r.err) != thrift.ALREADY_OPEN {
				rc.Violate("C15", "open-on-open-not-reported", "adapter", fmt.Sprintf("op %d: Open on an open transport returned %v", r.idx, r.err))
			}
			if !r.expOpen && r.err != nil && !r.openFault {
				rc.Violate("C15", "open-on-closed-failed", "adapter", fmt.Sprintf("op %d: Open on a closed transport returned %v", r.idx, r.err))
			}
		case "close":
			if !r.expOpen && typeID(r.err) != thrift.NOT_OPEN {
				rc.Violate("C15", "close-on-closed-not-reported", "adapter", fmt.Sprintf("op %d: Close on a closed transport returned %v", r.idx, r.err))
			}
			if r.expOpen && r.err != nil && !r.closeFault {
				rc.Violate("C15", "close-on-open-failed", "adapter", fmt.Sprintf("op %d: Close on an open transport returned %v", r.idx, r.err))
			}
		case "isopen":
			if r.b != r.expOpen {
				rc.Violate("C15", "isopen-inconsistent", "adapter", fmt.Sprintf("op %d: IsOpen()=%v, expected %v", r.idx, r.b, r.expOpen))
			}
		case "closedq":
			if !r.expOpen && !r.b {
				rc.Violate("C15", "closed-channel-silent-after-close", "adapter", fmt.Sprintf("op %d: the transport is closed and its cause was published, yet Closed() hands out a channel that has not fired (a watcher starting now would wait for ever); ops %v", r.idx, opLog))
			}
		}
	}

	for _, e := range lc.epochs {
		if e.faultConsumed && !e.streamClosed {
			rc.Violate("C15", "failure-undetected", "adapter "+e.faultKind,
				fmt.Sprintf("epoch %d (opened by %s): the stream %s was seen by the read loop but the transport was never closed (IsOpen()=%v); ops %v",
					e.id, e.openedBy, e.faultKind, tr.IsOpen(), opLog))
			continue
		}
		if !e.streamClosed {
			continue
		}
		if e.watched {
			if len(e.values) != 1 || !e.chanClosed {
				rc.Violate("C15", "close-cause-count", "adapter", fmt.Sprintf("epoch %d: Closed() yielded %d values, closed=%v", e.id, len(e.values), e.chanClosed))
			} else {
				v := e.values[0]
				if e.faultKind == "err" && e.faultConsumed && !e.userClose && v == nil && e.consumedStep < e.closedStep {
					rc.Violate("C15", "unclean-close-reported-clean", "adapter", fmt.Sprintf("epoch %d: failed with a read error but the published cause is nil", e.id))
				}
				if e.faultKind == "" && v != nil {
					rc.Violate("C15", "healthy-epoch-closed-unclean", "adapter", fmt.Sprintf("epoch %d: its stream never failed, yet the transport closed with cause %v; ops %v", e.id, v, opLog))
				}
			}
		}
	}
	// monitor notification (post hoc, in close order): the runner handles one
	// close at a time; a close that happens while it is still busy with an
	// earlier one (reopen cycle not finished) may legitimately be coalesced,
	// so checking stops there. A clean close or a "do not reopen" decision
	// ends the runner's life by design.
	alive, poisoned := lc.monSet, false
	busyEnd := -1 // step at which the current reopen cycle ended; -2 = never
	mi := 0
	for _, e := range lc.epochs {
		if !e.streamClosed || !alive || poisoned {
			continue
		}
		if lc.mon2Step > 0 && e.closedStep >= lc.mon2Step {
			continue // closes from here on are the second monitor's business, which records nothing
		}
		if !e.watched || len(e.values) != 1 {
			poisoned = true
			continue
		}
		if busyEnd == -2 || e.closedStep <= busyEnd {
			poisoned = true
			continue
		}
		want := "clean"
		if e.values[0] != nil {
			want = "unclean"
		}
		var got *lcMonEvent
		for mi < len(lc.mon) {
			m := &lc.mon[mi]
			mi++
			if m.step >= e.closedStep && (m.kind == "clean" || m.kind == "unclean") {
				got = m
				break
			}
		}
		if got == nil {
			rc.Violate("C15", "monitor-not-notified", "adapter "+want, fmt.Sprintf("epoch %d closed (cause %v) while the monitor runner was idle, no callback followed; ops %v", e.id, e.values[0], opLog))
			break
		}
		if got.kind != want {
			rc.Violate("C15", "monitor-wrong-callback", "adapter", fmt.Sprintf("epoch %d closed with cause %v but the monitor got %s", e.id, e.values[0], got.kind))
			break
		}
		if got.kind == "clean" || !got.reopen {
			alive = false
			continue
		}
		busyEnd = -2
		for j := mi; j < len(lc.mon); j++ {
			m := &lc.mon[j]
			if m.kind == "reopen-succeeded" || (m.kind == "reopen-failed" && !m.reopen) {
				busyEnd = m.step
				if m.kind == "reopen-failed" {
					alive = false
				}
				break
			}
		}
	}
	// reopen policy
	var attempts, failedInCycle uint
	var lastDecision *lcMonEvent
	for i := range lc.mon {
		m := &lc.mon[i]
		switch m.kind {
		case "unclean":
			attempts = 0
			failedInCycle = 0
			lastDecision = m
			if m.reopen != (lc.maxAtt > 0) {
				rc.Violate("C15", "reopen-decision", "adapter", "OnClosedUncleanly decision does not match MaxReopenAttempts")
			}
		case "open-attempt":
			attempts++
			if attempts > lc.maxAtt {
				rc.Violate("C15", "too-many-reopen-attempts", "adapter", fmt.Sprintf("%d attempts, MaxReopenAttempts=%d", attempts, lc.maxAtt))
			}
			if lastDecision != nil {
				slept := m.at - lastDecision.at
				if slept != lastDecision.wait {
					rc.Violate("C15", "reopen-wait-not-honoured", "adapter", fmt.Sprintf("monitor asked for %v, runner attempted after %v", lastDecision.wait, slept))
				}
				if slept > lc.maxW {
					if lc.initW > lc.maxW && lastDecision.kind == "unclean" {
						rc.Violate("C15", "wait-above-max", "InitialWait>MaxWait", fmt.Sprintf("first wait %v with MaxWait %v (InitialWait %v)", slept, lc.maxW, lc.initW))
					} else {
						rc.Violate("C15", "wait-above-max", "adapter", fmt.Sprintf("wait %v with MaxWait %v", slept, lc.maxW))
					}
				}
			}
		case "reopen-failed":
			failedInCycle++
			if m.prev != failedInCycle {
				rc.Violate("C15", "reopen-attempt-count-wrong", "adapter", fmt.Sprintf("OnReopenFailed was told %d previous attempts, but %d attempts have failed in this outage", m.prev, failedInCycle))
			}
			if !m.reopen && failedInCycle < lc.maxAtt {
				rc.Violate("C15", "reopen-gave-up-early", "adapter", fmt.Sprintf("the monitor gave up after %d failed attempts in this outage, MaxReopenAttempts=%d", failedInCycle, lc.maxAtt))
			}
			lastDecision = m
		case "reopen-succeeded":
			if !m.isOpen && m.ok {
				rc.Violate("C15", "reopen-succeeded-but-closed", "adapter", "OnReopenSucceeded while IsOpen() is false")
			}
			lastDecision = nil
		}
	}
	// wedged tasks
	for _, t := range s.Tasks() {
		if t.State == "dead" || t.Site <= 0 {
			continue
		}
		if t.State == "native" || t.State == "lockwait" {
			if strings.HasPrefix(t.SiteKey, "transport_monitor.go run/recv") {
				continue
			}
			rc.Violate("C15", "wedged-task", t.SiteKey, fmt.Sprintf("task %s blocked at %s at the end of the run; ops %v", t.ID, t.SiteName, opLog))
		}
	}
	s.Shutdown()
	st.Kill()
}
