package harness

import (
	"bufio"
	"errors"
	"fmt"
	"io"
	"net"
	"strconv"
	"strings"
	"sync"
	"time"

	"github.com/nats-io/nats.go"
	"verif/simrt"
)

// SimBroker speaks the NATS client protocol to the real nats.go client over
// in-bubble net.Pipe connections (DESIGN.md §2.4). Commands read from a
// connection take effect in the order read, one scheduler event each;
// everything the broker sends to a connection goes through one outbound FIFO,
// so a PONG can never overtake a message routed earlier (what Flush and Drain
// rely on). Which connection's next item moves, and when, is the scheduler's
// (tape's) decision. The harness can inject arbitrary messages and intercept
// publishes (adversarial peer).
type SimBroker struct {
	rc *RunCtx
	s  *simrt.Sim

	mu    sync.Mutex
	conns []*BrokerConn
	subs  []*bsub
	sidN  int

	// OnPublish, if set, is called (on the scheduler goroutine) for every
	// publish the broker processes, before routing. Returning true consumes it.
	OnPublish func(c *BrokerConn, subject, reply string, hdr, data []byte) bool
	// OnDeliver is called when a MSG/HMSG is handed to a client connection.
	OnDeliver func(c *BrokerConn, subject string, data []byte)
	// DeliveryDelay lets a harness delay an outbound item (tape-chosen).
	DeliveryDelay                      func(c *BrokerConn, isMsg bool) time.Duration
	Published, Delivered, NoResponders int
	// MaxPayload is announced in INFO (0 = 1 MiB); nats.go refuses larger publishes client-side.
	MaxPayload int
	// ConnOptions are appended to the options of every connection made afterwards.
	ConnOptions []nats.Option
	// Down: the server is gone; dialling fails until it is back.
	Down bool
}

// GoDown stops the server: every client connection is cut and new ones are refused until ComeBack.
func (b *SimBroker) GoDown() {
	b.mu.Lock()
	b.Down = true
	cs := append([]*BrokerConn(nil), b.conns...)
	b.subs = nil
	b.mu.Unlock()
	for _, c := range cs {
		b.mu.Lock()
		was := c.closed
		c.closed = true
		b.mu.Unlock()
		if !was {
			c.srv.Close()
		}
	}
}

// ComeBack lets clients connect again.
func (b *SimBroker) ComeBack() {
	b.mu.Lock()
	b.Down = false
	b.mu.Unlock()
}

type bsub struct {
	c       *BrokerConn
	subject string
	queue   string
	sid     string
	max     int // 0 = unlimited
	got     int
}

type bcmd struct {
	op      string
	subject string
	reply   string
	queue   string
	sid     string
	max     int
	hdr     []byte
	data    []byte
}

type outItem struct {
	b       []byte
	isMsg   bool
	subject string
	data    []byte
}

// BrokerConn is the broker's end of one client connection.
type BrokerConn struct {
	ID      int
	b       *SimBroker
	srv     net.Conn
	inQ     []bcmd
	outQ    []outItem
	inEv    bool
	outEv   bool
	wch     chan []byte
	closed  bool
	noResp  bool
	headers bool
	Name    string
	// StallUntil (simulated time): until then the broker does not look at what
	// this client sends (a busy broker, a congested path): PUBs and PINGs wait.
	StallUntil time.Duration
	// ReadStallUntil (simulated time): until then the broker does not even READ this client's socket: the
	// client's writes block (net.Pipe has no buffer; a real socket would after its buffers filled up)
	ReadStallUntil time.Duration
	gate           chan struct{}
}

// brokerSide wraps the broker's end of a connection so that reads can be held back.
type brokerSide struct {
	net.Conn
	c *BrokerConn
}

func (g *brokerSide) Read(p []byte) (int, error) {
	c := g.c
	for {
		c.b.mu.Lock()
		d := c.ReadStallUntil - c.b.s.Now()
		c.b.mu.Unlock()
		if d <= 0 {
			break
		}
		c.b.s.AddEvent(fmt.Sprintf("nats:c%02d:readgate", c.ID), d, func() {
			select {
			case c.gate <- struct{}{}:
			default:
			}
		})
		<-c.gate
	}
	return g.Conn.Read(p)
}

// StallReads makes the broker stop reading this client's socket for d from now.
func (c *BrokerConn) StallReads(d time.Duration) {
	c.b.mu.Lock()
	if u := c.b.s.Now() + d; u > c.ReadStallUntil {
		c.ReadStallUntil = u
	}
	c.b.mu.Unlock()
}

// StallInbound makes the broker ignore this client's input for d from now.
func (c *BrokerConn) StallInbound(d time.Duration) {
	c.b.mu.Lock()
	if u := c.b.s.Now() + d; u > c.StallUntil {
		c.StallUntil = u
	}
	c.b.mu.Unlock()
}

// Conn returns the broker's end of the i-th client connection.
func (b *SimBroker) Conn(i int) *BrokerConn {
	b.mu.Lock()
	defer b.mu.Unlock()
	if i < len(b.conns) {
		return b.conns[i]
	}
	return nil
}

// NewSimBroker creates a broker for this run.
func NewSimBroker(rc *RunCtx) *SimBroker {
	rc.DirtyPools = true
	return &SimBroker{rc: rc, s: rc.Sim}
}

type brokerDialer struct {
	b    *SimBroker
	name string
}

func (d *brokerDialer) Dial(network, address string) (net.Conn, error) {
	d.b.mu.Lock()
	down := d.b.Down
	d.b.mu.Unlock()
	if down {
		return nil, errors.New("dial tcp 127.0.0.1:4222: connect: connection refused")
	}
	cli, srv := net.Pipe()
	b := d.b
	b.mu.Lock()
	c := &BrokerConn{ID: len(b.conns) + 1, b: b, wch: make(chan []byte, 4096), Name: d.name, gate: make(chan struct{}, 1)}
	c.srv = &brokerSide{Conn: srv, c: c}
	b.conns = append(b.conns, c)
	b.mu.Unlock()
	go c.writer()
	go c.reader()
	c.enqueueOut(outItem{b: []byte(fmt.Sprintf(`INFO {"server_id":"SIM","server_name":"sim","version":"2.10.11","proto":1,"go":"go","host":"sim","port":4222,"headers":true,"max_payload":%d,"client_id":%d}`+"\r\n", b.maxPayload(), c.ID))})
	return cli, nil
}

func (b *SimBroker) maxPayload() int {
	if b.MaxPayload > 0 {
		return b.MaxPayload
	}
	return 1048576
}

// Connect returns a real nats.go connection to this broker. It must be
// called from a simulation task.
func (b *SimBroker) Connect(name string) (*nats.Conn, error) {
	site := simrt.HarnessSite("nats.Connect")
	simrt.Block(site)
	opts := append([]nats.Option{
		nats.SetCustomDialer(&brokerDialer{b: b, name: name}),
		nats.NoReconnect(),
		nats.PingInterval(24 * time.Hour),
		nats.Name(name),
		nats.Timeout(time.Hour),
		nats.FlusherTimeout(0),
		nats.DrainTimeout(time.Hour),
	}, b.ConnOptions...)
	nc, err := nats.Connect("nats://127.0.0.1:4222", opts...)
	simrt.Yield(site)
	return nc, err
}

func (c *BrokerConn) writer() {
	for b := range c.wch {
		if _, err := c.srv.Write(b); err != nil {
			return
		}
	}
}

func (c *BrokerConn) reader() {
	br := bufio.NewReaderSize(c.srv, 1<<16)
	for {
		line, err := br.ReadString('\n')
		if err != nil {
			c.b.mu.Lock()
			c.closed = true
			c.b.mu.Unlock()
			return
		}
		line = strings.TrimRight(line, "\r\n")
		if line == "" {
			continue
		}
		f := strings.Fields(line)
		op := strings.ToUpper(f[0])
		var cmd bcmd
		cmd.op = op
		switch op {
		case "CONNECT":
			cmd.data = []byte(line[len(f[0]):])
		case "PING", "PONG":
		case "SUB":
			if len(f) == 3 {
				cmd.subject, cmd.sid = f[1], f[2]
			} else if len(f) == 4 {
				cmd.subject, cmd.queue, cmd.sid = f[1], f[2], f[3]
			}
		case "UNSUB":
			cmd.sid = f[1]
			if len(f) > 2 {
				cmd.max, _ = strconv.Atoi(f[2])
			}
		case "PUB":
			var n int
			if len(f) == 3 {
				cmd.subject = f[1]
				n, _ = strconv.Atoi(f[2])
			} else if len(f) == 4 {
				cmd.subject, cmd.reply = f[1], f[2]
				n, _ = strconv.Atoi(f[3])
			}
			buf := make([]byte, n+2)
			if _, err := io.ReadFull(br, buf); err != nil {
				return
			}
			cmd.data = buf[:n]
		case "HPUB":
			var hl, tl int
			if len(f) == 4 {
				cmd.subject = f[1]
				hl, _ = strconv.Atoi(f[2])
				tl, _ = strconv.Atoi(f[3])
			} else if len(f) == 5 {
				cmd.subject, cmd.reply = f[1], f[2]
				hl, _ = strconv.Atoi(f[3])
				tl, _ = strconv.Atoi(f[4])
			}
			buf := make([]byte, tl+2)
			if _, err := io.ReadFull(br, buf); err != nil {
				return
			}
			cmd.hdr, cmd.data = buf[:hl], buf[hl:tl]
		default:
			continue
		}
		c.b.mu.Lock()
		c.inQ = append(c.inQ, cmd)
		need := !c.inEv
		c.inEv = true
		c.b.mu.Unlock()
		if need {
			c.b.s.AddEvent(fmt.Sprintf("nats:c%02d:in", c.ID), 0, c.processIn)
		}
	}
}

func (c *BrokerConn) enqueueOut(it outItem) {
	b := c.b
	b.mu.Lock()
	if c.closed {
		b.mu.Unlock()
		return
	}
	c.outQ = append(c.outQ, it)
	need := !c.outEv
	c.outEv = true
	b.mu.Unlock()
	if need {
		c.scheduleOut()
	}
}

func (c *BrokerConn) scheduleOut() {
	var d time.Duration
	if c.b.DeliveryDelay != nil {
		c.b.mu.Lock()
		isMsg := len(c.outQ) > 0 && c.outQ[0].isMsg
		c.b.mu.Unlock()
		d = c.b.DeliveryDelay(c, isMsg)
	}
	c.b.s.AddEvent(fmt.Sprintf("nats:c%02d:out", c.ID), d, c.deliverOut)
}

// deliverOut hands the head of the outbound FIFO to the client.
func (c *BrokerConn) deliverOut() {
	b := c.b
	b.mu.Lock()
	if len(c.outQ) == 0 || c.closed {
		c.outEv = false
		b.mu.Unlock()
		return
	}
	it := c.outQ[0]
	c.outQ = c.outQ[1:]
	more := len(c.outQ) > 0
	c.outEv = more
	if it.isMsg {
		b.Delivered++
	}
	cb := b.OnDeliver
	b.mu.Unlock()
	select {
	case c.wch <- it.b:
	default:
		b.rc.Violate("INFRA", "broker-write-queue-full", "", "")
	}
	if it.isMsg && cb != nil {
		cb(c, it.subject, it.data)
	}
	if more {
		c.scheduleOut()
	}
}

// processIn applies the next inbound command of this connection.
func (c *BrokerConn) processIn() {
	b := c.b
	b.mu.Lock()
	if now := b.s.Now(); c.StallUntil > now && len(c.inQ) > 0 {
		d := c.StallUntil - now
		b.mu.Unlock()
		b.s.AddEvent(fmt.Sprintf("nats:c%02d:in", c.ID), d, c.processIn)
		return
	}
	if len(c.inQ) == 0 {
		c.inEv = false
		b.mu.Unlock()
		return
	}
	cmd := c.inQ[0]
	c.inQ = c.inQ[1:]
	more := len(c.inQ) > 0
	c.inEv = more
	b.mu.Unlock()
	switch cmd.op {
	case "CONNECT":
		s := string(cmd.data)
		c.noResp = strings.Contains(s, `"no_responders":true`)
		c.headers = strings.Contains(s, `"headers":true`)
	case "PING":
		c.enqueueOut(outItem{b: []byte("PONG\r\n")})
	case "PONG":
	case "SUB":
		b.mu.Lock()
		b.subs = append(b.subs, &bsub{c: c, subject: cmd.subject, queue: cmd.queue, sid: cmd.sid})
		b.mu.Unlock()
	case "UNSUB":
		b.mu.Lock()
		for i, s := range b.subs {
			if s.c == c && s.sid == cmd.sid {
				if cmd.max > 0 && s.got < cmd.max {
					s.max = cmd.max
				} else {
					b.subs = append(b.subs[:i], b.subs[i+1:]...)
				}
				break
			}
		}
		b.mu.Unlock()
	case "PUB", "HPUB":
		b.mu.Lock()
		b.Published++
		cb := b.OnPublish
		b.mu.Unlock()
		if cb == nil || !cb(c, cmd.subject, cmd.reply, cmd.hdr, cmd.data) {
			n := b.Route(cmd.subject, cmd.reply, cmd.hdr, cmd.data)
			if n == 0 && cmd.reply != "" && c.noResp {
				b.mu.Lock()
				b.NoResponders++
				b.mu.Unlock()
				b.Route(cmd.reply, "", []byte("NATS/1.0 503\r\n\r\n"), nil)
			}
		}
	}
	if more {
		b.s.AddEvent(fmt.Sprintf("nats:c%02d:in", c.ID), 0, c.processIn)
	}
}

func subjectMatches(pattern, subject string) bool {
	pt := strings.Split(pattern, ".")
	st := strings.Split(subject, ".")
	for i, p := range pt {
		if p == ">" {
			return i < len(st)
		}
		if i >= len(st) {
			return false
		}
		if p != "*" && p != st[i] {
			return false
		}
	}
	return len(pt) == len(st)
}

// Route delivers a message to every matching subscription (one member per
// queue group, chosen by the tape) and returns the number of deliveries. It
// is also the harness's way to inject arbitrary messages.
func (b *SimBroker) Route(subject, reply string, hdr, data []byte) int {
	b.mu.Lock()
	var plain []*bsub
	groups := map[string][]*bsub{}
	var gnames []string
	for _, s := range b.subs {
		if !subjectMatches(s.subject, subject) {
			continue
		}
		if s.queue == "" {
			plain = append(plain, s)
		} else {
			if _, ok := groups[s.queue]; !ok {
				gnames = append(gnames, s.queue)
			}
			groups[s.queue] = append(groups[s.queue], s)
		}
	}
	targets := plain
	for _, g := range gnames {
		m := groups[g]
		k := 0
		if len(m) > 1 {
			k = b.rc.Tape.Intn("queue", len(m))
		}
		targets = append(targets, m[k])
	}
	var drop []*bsub
	for _, s := range targets {
		s.got++
		if s.max > 0 && s.got >= s.max {
			drop = append(drop, s)
		}
	}
	for _, d := range drop {
		for i, s := range b.subs {
			if s == d {
				b.subs = append(b.subs[:i], b.subs[i+1:]...)
				break
			}
		}
	}
	b.mu.Unlock()
	for _, s := range targets {
		var line string
		var body []byte
		if len(hdr) > 0 {
			if reply != "" {
				line = fmt.Sprintf("HMSG %s %s %s %d %d\r\n", subject, s.sid, reply, len(hdr), len(hdr)+len(data))
			} else {
				line = fmt.Sprintf("HMSG %s %s %d %d\r\n", subject, s.sid, len(hdr), len(hdr)+len(data))
			}
			body = append(append([]byte(line), hdr...), data...)
		} else {
			if reply != "" {
				line = fmt.Sprintf("MSG %s %s %s %d\r\n", subject, s.sid, reply, len(data))
			} else {
				line = fmt.Sprintf("MSG %s %s %d\r\n", subject, s.sid, len(data))
			}
			body = append([]byte(line), data...)
		}
		body = append(body, '\r', '\n')
		s.c.enqueueOut(outItem{b: body, isMsg: true, subject: subject, data: data})
	}
	return len(targets)
}

// SubCount reports the number of live subscriptions matching subject.
func (b *SimBroker) SubCount(subject string) int {
	b.mu.Lock()
	defer b.mu.Unlock()
	n := 0
	for _, s := range b.subs {
		if subjectMatches(s.subject, subject) {
			n++
		}
	}
	return n
}

// Pending reports queued but unprocessed broker work.
func (b *SimBroker) Pending() int {
	b.mu.Lock()
	defer b.mu.Unlock()
	n := 0
	for _, c := range b.conns {
		n += len(c.inQ) + len(c.outQ)
	}
	return n
}

// Kill closes every connection at teardown.
func (b *SimBroker) Kill() {
	b.mu.Lock()
	cs := append([]*BrokerConn(nil), b.conns...)
	b.mu.Unlock()
	for _, c := range cs {
		b.mu.Lock()
		c.closed = true
		b.mu.Unlock()
		c.srv.Close()
		close(c.wch)
	}
}
