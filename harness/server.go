package harness

import (
	"bytes"
	"context"
	"encoding/base64"
	"fmt"
	"net/http/httptest"
	"strconv"
	"strings"
	"time"

	frugal "github.com/Workiva/frugal/lib/go"
	"github.com/apache/thrift/lib/go/thrift"
	"verif/harness/gen/simbase"
	"verif/harness/gen/simsvc"
	"verif/simrt"
)

// server harness (DESIGN.md §3 C14): raw request frames built with an
// independent codec are fed to the real generated processor behind the simple
// server, the NATS server, the HTTP handler, and - setting "shared" - to K
// tasks that call Process concurrently with one shared output protocol.
// Replies are captured at the transport and parsed schema-less.

type rawReq struct {
	opid       string
	tag        string
	kind       string // valid | unknown-method | malformed | oneway
	method     string
	outcome    string
	frame      []byte // complete request frame
	conn       int
	wantType   thrift.TMessageType
	wantApp    int32
	wantAppAlt int32 // a second acceptable exception type (0: none)
	wantFields []int16
	replies    [][]byte
	sent       bool
	limit      string // HTTP only: x-frugal-payload-limit value ("" = none)
	got413     bool
}

func init() { Register("server", serverHarness) }

func serverHarness(rc *RunCtx) {
	tp := rc.Tape
	s := rc.NewSim(rc.Scale(60000, 200000), 10*time.Minute)
	env := &e2eEnv{rc: rc, s: s, plans: map[string]*callPlan{}}
	env.proto = []string{"binary", "compact", "json"}[tp.Intn("cfg", 3)]
	env.pf = frugal.NewFProtocolFactory(protoFactory(env.proto))
	setting := []string{"simple", "nats", "http", "shared"}[tp.Intn("cfg", 4)]
	if v := rc.Params["setting"]; v != "" {
		setting = v
	}
	jsonSimple := false
	if setting == "simple" && env.proto == "json" {
		if tp.Intn("jsonsimple", 2) == 1 {
			// JSON over the framed simple server breaks when a request arrives in more than one read (finding
			// D9); with every request readable in one piece it works, and the JSON reader's state between
			// requests of one connection is worth having in the workload
			jsonSimple = true
		} else {
			env.proto = "binary"
			env.pf = frugal.NewFProtocolFactory(protoFactory(env.proto))
		}
	}
	env.kind = setting
	env.proc = simsvc.NewFLeafProcessor(&simHandler{env: env})
	rc.Sample["setting"], rc.Sample["protocol"] = setting, env.proto
	rc.Nontrivial = true
	key := setting + "/" + env.proto

	nConns := 1 + tp.Intn("cfg", 3)
	nReq := 2 + tp.Intn("cfg", rc.Scale(10, 30))
	rc.Sample["requests"] = nReq
	var reqs []*rawReq
	byOpid := map[string]*rawReq{}
	for i := 0; i < nReq; i++ {
		r := &rawReq{opid: strconv.Itoa(5000 + i), tag: fmt.Sprintf("r%d", i), conn: tp.Intn("req", nConns)}
		p := &callPlan{id: i, tag: r.tag, outcome: "ok", dur: []time.Duration{0, 0, time.Millisecond, 4 * time.Millisecond}[tp.Intn("req", 4)]}
		var fields []rawField
		wireName := ""
		switch tp.Intn("req", 7) {
		case 0:
			p.method = "add"
			fields = []rawField{{1, thrift.I32, int32(i)}, {2, thrift.I32, int32(3)}}
			p.ret = int32(i + 3)
			p.outcome = []string{"ok", "ok", "undeclared", "appex", "transporterr", "protoerr"}[tp.Intn("req", 6)]
			r.wantFields = []int16{0}
		case 1:
			p.method = "basePing"
			fields = []rawField{{1, thrift.STRING, "ping" + genString(tp, "req", 5)}}
			p.outcome = []string{"ok", "ex1", "undeclared"}[tp.Intn("req", 3)]
			p.ret = "pong"
			r.wantFields = []int16{0}
			if p.outcome == "ex1" {
				p.ret = &simbase.BaseErr{Why: "w", Code: 9}
				r.wantFields = []int16{1}
			}
		case 2:
			p.method = "doVoid"
			fields = []rawField{{1, thrift.STRING, genString(tp, "req", 8)}}
			p.outcome = []string{"ok", "ex1", "appex"}[tp.Intn("req", 3)]
			r.wantFields = nil
			if p.outcome == "ex1" {
				p.ret = &simsvc.Denied{Code: 1, Reason: "no"}
				r.wantFields = []int16{1}
			}
		case 3:
			p.method = "echoItem"
			fields = []rawField{{1, thrift.STRUCT, []rawField{{1, thrift.I64, int64(i)}, {3, thrift.I32, int32(2)}}}, {2, thrift.I32, int32(i)}}
			p.outcome = []string{"ok", "ex1", "ex2", "undeclared"}[tp.Intn("req", 4)]
			r.wantFields = []int16{0}
			switch p.outcome {
			case "ok":
				p.ret = genItem(tp, int64(i))
			case "ex1":
				p.ret = &simsvc.NotFound{Key: "k"}
				r.wantFields = []int16{1}
			case "ex2":
				p.ret = &simsvc.Denied{Code: 2, Reason: "r"}
				r.wantFields = []int16{2}
			}
		case 6:
			// capitalised in the IDL and declaring an exception: the reply must carry the name as the caller wrote it
			p.method = "Lookup"
			wireName = "lookup" // what frugal's clients put on the wire for it (first letter lowered)
			fields = []rawField{{1, thrift.STRING, "k" + genString(tp, "req", 4)}}
			p.outcome = []string{"ok", "ex1", "undeclared", "appex"}[tp.Intn("req", 4)]
			p.ret = "found"
			r.wantFields = []int16{0}
			if p.outcome == "ex1" {
				p.ret = &simsvc.NotFound{Key: "k"}
				r.wantFields = []int16{1}
			}
		case 4:
			p.method = "fire"
			p.oneway = true
			fields = []rawField{{1, thrift.STRING, "f" + genString(tp, "req", 5)}}
			r.kind = "oneway"
			// a oneway whose handler fails: whether the server says so on the wire is its
			// business, but nothing that follows may suffer
			p.outcome = []string{"ok", "ok", "undeclared", "appex", "transporterr", "protoerr"}[tp.Intn("req", 6)]
		case 5:
			if tp.Intn("req", 2) == 0 {
				p.method = "noSuchMethod"
				fields = []rawField{{1, thrift.STRING, "x"}, {2, thrift.STRUCT, []rawField{{1, thrift.I32, int32(1)}}}}
				r.kind = "unknown-method"
				if tp.Intn("unkmal", 4) == 0 {
					// both at once: a method the server does not have, and arguments that end early. Still a request
					// with decodable headers: one EXCEPTION reply (either reason is an appropriate one)
					r.kind = "malformed"
					rc.Fault("unknown-method-with-malformed-arguments")
				} else if tp.Intn("req", 3) == 0 {
					p.oneway = true // a oneway-typed message for a method the server does not have
					rc.Fault("unknown-method-oneway")
				}
			} else {
				p.method = "add"
				fields = []rawField{{1, thrift.I32, int32(1)}, {2, thrift.I32, int32(2)}}
				p.ret = int32(3)
				r.kind = "malformed"
			}
		}
		switch p.outcome {
		case "undeclared", "transporterr", "protoerr":
			p.msg = "boom" + strconv.Itoa(i)
			if p.outcome != "undeclared" {
				rc.Fault("handler-returns-" + p.outcome)
			}
		case "appex":
			p.appType = []int32{0, 3, 5, 6, 42}[tp.Intn("req", 5)]
			p.msg = "app" + strconv.Itoa(i)
		}
		if wireName == "" {
			wireName = p.method
		}
		r.method, r.outcome = wireName, p.outcome
		if r.kind == "" {
			r.kind = "valid"
		}
		mt := thrift.CALL
		if p.oneway {
			mt = thrift.ONEWAY
		}
		msg := rawMessage(env.proto, wireName, mt, fields)
		if r.kind == "valid" && !p.oneway && setting != "simple" && setting != "shared" && tp.Intn("req", 6) == 0 {
			// well-formed arguments followed by bytes the decoder never reads: with per-message
			// buffers they must simply be dropped with the message
			msg = append(msg, []byte(genString(tp, "req", 6)+"\x00\xff\x7f")...)
			rc.Fault("trailing-bytes-after-arguments")
		}
		if setting == "http" && tp.Intn("req", 5) == 0 {
			r.limit = []string{"10", "1000000"}[tp.Intn("req", 2)]
			rc.Fault("http-payload-limit-header")
		}
		if r.kind == "malformed" {
			// cut inside the argument struct: the message begin (method name) stays intact
			empty := rawMessage(env.proto, wireName, mt, nil)
			begin := len(empty) - 1
			if env.proto == "json" {
				begin = len(empty) - 3
			}
			cut := begin + 1 + tp.Intn("req", len(msg)-1-begin-1)
			msg = msg[:cut]
			rc.Fault("malformed-arguments")
		}
		hdr := map[string]string{"_opid": r.opid, "_cid": "cid" + strconv.Itoa(i), "_timeout": "5000", "tag": r.tag}
		if k := tp.Intn("reqtimeout", 8); k >= 4 {
			// callers with short, zero or no timeouts: what the caller is prepared to wait is the caller's business; a
			// request with decodable headers is answered
			if v := []string{"0", "1", "30", ""}[k-4]; v == "" {
				delete(hdr, "_timeout")
			} else {
				hdr["_timeout"] = v
			}
			rc.Fault("request-with-a-short-zero-or-absent-timeout")
		}
		r.frame = EncodeFrame(hdr, msg)
		// expectation
		switch {
		case r.kind == "unknown-method":
			r.wantType, r.wantApp = thrift.EXCEPTION, thrift.UNKNOWN_METHOD
			rc.Fault("unknown-method")
		case r.kind == "malformed":
			r.wantType, r.wantApp = thrift.EXCEPTION, thrift.PROTOCOL_ERROR
			if p.method == "noSuchMethod" {
				r.wantAppAlt = thrift.UNKNOWN_METHOD
			}
		case p.outcome == "undeclared" || p.outcome == "transporterr" || p.outcome == "protoerr":
			r.wantType, r.wantApp = thrift.EXCEPTION, thrift.INTERNAL_ERROR
			rc.Fault("handler-undeclared-error")
		case p.outcome == "appex":
			r.wantType, r.wantApp = thrift.EXCEPTION, p.appType
			rc.Fault("handler-application-exception")
		default:
			r.wantType = thrift.REPLY
		}
		if r.kind != "unknown-method" {
			env.plans[r.tag] = p
		} else if p.oneway {
			env.plans["oneway:"+r.tag] = p
		}
		reqs = append(reqs, r)
		byOpid[r.opid] = r
	}
	// on a simple-server connection a malformed request may desynchronise what follows: keep it last
	if setting == "simple" {
		for c := 0; c < nConns; c++ {
			var rest, mal []*rawReq
			for _, r := range reqs {
				if r.conn != c {
					continue
				}
				if r.kind == "malformed" {
					mal = append(mal, r)
				} else {
					rest = append(rest, r)
				}
			}
			if len(mal) > 1 {
				for _, r := range mal[1:] {
					r.kind = "dropped"
				}
			}
		}
	}
	onReply := func(frame []byte) {
		f, err := DecodeFrame(frame)
		if err != nil {
			rc.Violate("C14", "undecodable-reply-frame", key, fmt.Sprintf("%v: % x", err, frame[:min(len(frame), 40)]))
			return
		}
		r := byOpid[f.Headers["_opid"]]
		if r == nil {
			rc.Violate("C14", "reply-with-unknown-opid", key, fmt.Sprintf("reply carries op id %q", f.Headers["_opid"]))
			return
		}
		r.replies = append(r.replies, frame)
	}

	finished := false
	var sharedOut *recStream
	s.GoRoot("main", "main", func() {
		switch setting {
		case "simple":
			env.lst = newSimListener()
			srv := frugal.NewFSimpleServer(env.proc, env.lst, env.pf)
			done := make(chan struct{}, 1)
			s.Go("serve", func() { srv.Serve(); simrt.Send(simrt.HarnessSite("serve-done"), done, struct{}{}) })
			var ssts []*SimStream
			for c := 0; c < nConns; c++ {
				sst := NewSimStream(rc, fmt.Sprintf("srv%d", c))
				sst.WholeItems = jsonSimple
				sst.Open()
				sst.OnFrame = onReply
				env.streams = append(env.streams, sst)
				ssts = append(ssts, sst)
				simrt.Send(env.lst.site, env.lst.acceptC, thrift.TTransport(sst))
			}
			for c := 0; c < nConns; c++ {
				var last []*rawReq
				for _, r := range reqs {
					if r.conn != c || r.kind == "dropped" {
						continue
					}
					if r.kind == "malformed" {
						last = append(last, r)
						continue
					}
					ssts[c].PeerWrite(r.frame)
					r.sent = true
				}
				for _, r := range last {
					ssts[c].PeerWrite(r.frame)
					r.sent = true
				}
			}
			settle(3 * time.Second)
			stopped := false
			cleanConn := -1
			for c := range ssts {
				ok := true
				for _, r := range reqs {
					if r.conn == c && (r.kind == "malformed" || r.kind == "dropped") {
						ok = false // that connection may be out of step after the malformed request
					}
				}
				if ok {
					cleanConn = c
					break
				}
			}
			if tp.Intn("stopinflight", 4) == 3 && cleanConn >= 0 {
				// the operator stops the server while a request is inside its handler: a request that was accepted
				// still gets its one reply (Stop ends accepting, it does not take answers away)
				rc.Fault("stop-while-a-request-is-in-its-handler")
				r := &rawReq{opid: "5999", tag: "rlast", conn: cleanConn, kind: "valid", method: "add", outcome: "ok", wantType: thrift.REPLY, wantFields: []int16{0}}
				env.plans[r.tag] = &callPlan{id: 999, tag: r.tag, method: "add", outcome: "ok", ret: int32(5), dur: 20 * time.Millisecond}
				r.frame = EncodeFrame(map[string]string{"_opid": r.opid, "_cid": "cidlast", "_timeout": "5000", "tag": r.tag},
					rawMessage(env.proto, "add", thrift.CALL, []rawField{{1, thrift.I32, int32(2)}, {2, thrift.I32, int32(3)}}))
				reqs = append(reqs, r)
				byOpid[r.opid] = r
				ssts[cleanConn].PeerWrite(r.frame)
				r.sent = true
				settle(2 * time.Millisecond)
				srv.Stop()
				stopped = true
				settle(time.Second)
			}
			for _, sst := range ssts {
				sst.PeerEnd(nil)
			}
			if !stopped {
				srv.Stop()
			}
			simrt.Recv(simrt.HarnessSite("serve-done"), done)
		case "nats":
			env.b = NewSimBroker(rc)
			env.b.OnPublish = func(c *BrokerConn, subject, reply string, hdr, data []byte) bool {
				if strings.HasPrefix(subject, "_INBOX.raw.") {
					onReply(data)
					return true
				}
				return false
			}
			nc, err := env.b.Connect("server")
			if err != nil {
				rc.Violate("INFRA", "connect", key, err.Error())
				finished = true
				return
			}
			workers := 1 + tp.Intn("cfg", 4)
			rc.Sample["workers"] = workers
			srv := frugal.NewFNatsServerBuilder(nc, env.proc, env.pf, []string{"svc"}).WithWorkerCount(uint(workers)).Build()
			done := make(chan struct{}, 1)
			s.Go("serve", func() { srv.Serve(); simrt.Send(simrt.HarnessSite("serve-done"), done, struct{}{}) })
			site := simrt.HarnessSite("server.wait-sub")
			for i := 0; env.b.SubCount("svc") == 0 && i < 1000; i++ {
				simrt.Block(site)
				time.Sleep(time.Millisecond)
				simrt.Yield(site)
			}
			for _, r := range reqs {
				r := r
				r.sent = true
				s.AddEvent("peer:req:"+r.opid, time.Duration(tp.Intn("req", 3))*time.Millisecond, func() {
					env.b.Route("svc", "_INBOX.raw."+r.opid, nil, r.frame)
				})
			}
			settle(3 * time.Second)
			srv.Stop()
			simrt.Recv(simrt.HarnessSite("serve-done"), done)
			settle(time.Second)
			simrt.Block(site)
			nc.Flush()
			simrt.Yield(site)
			settle(time.Second)
		case "http":
			h := frugal.NewFrugalHandlerFunc(env.proc, env.pf)
			nTasks := 1 + tp.Intn("cfg", 4)
			doneC := make(chan int, nTasks)
			siteD := simrt.HarnessSite("server.http-done")
			for t := 0; t < nTasks; t++ {
				t := t
				s.Go("http-caller", func() {
					for i, r := range reqs {
						if i%nTasks != t {
							continue
						}
						r.sent = true
						body := base64.StdEncoding.EncodeToString(r.frame)
						req := httptest.NewRequest("POST", "http://sim/frugal", strings.NewReader(body))
						req.Header.Set("content-transfer-encoding", "base64")
						if r.limit != "" {
							req.Header.Set("x-frugal-payload-limit", r.limit)
						}
						rec := httptest.NewRecorder()
						simrt.Pre(siteD)
						h(rec, req)
						if rec.Code == 413 && r.limit == "10" && (r.kind != "oneway" || r.outcome != "ok") {
							r.got413 = true
							continue
						}
						if rec.Code != 200 {
							if r.kind != "malformed" {
								rc.Violate("C14", "http-error-status", key, fmt.Sprintf("request %s (%s %s/%s): status %d %s", r.opid, r.kind, r.method, r.outcome, rec.Code, rec.Body.String()))
							}
							continue
						}
						raw, err := base64.StdEncoding.DecodeString(rec.Body.String())
						if err != nil {
							rc.Violate("C14", "http-body-not-base64", key, err.Error())
							continue
						}
						if len(raw) > 4 {
							onReply(raw)
						}
					}
					simrt.Send(siteD, doneC, t)
				})
			}
			for t := 0; t < nTasks; t++ {
				simrt.Recv(siteD, doneC)
			}
		case "shared":
			sharedOut = &recStream{site: simrt.HarnessSite("shared-out.Write")}
			framed := frugal.NewTFramedTransport(sharedOut)
			oprot := env.pf.GetProtocol(framed)
			nTasks := 2 + tp.Intn("cfg", 4)
			rc.Sample["tasks"] = nTasks
			doneC := make(chan int, nTasks)
			siteD := simrt.HarnessSite("server.shared-done")
			if tp.Intn("deadpeer", 3) == 2 {
				// one caller has hung up by the time its reply is written (connection reset): that reply is lost,
				// whatever Process makes of it - and every other request is answered as if nothing had happened
				var victim *rawReq
				for _, r := range reqs {
					if r.kind != "malformed" && (victim == nil || (victim.outcome == "ok" && r.outcome != "ok")) {
						victim = r
					}
				}
				if victim != nil {
					rc.Fault("reply-cannot-be-written-the-caller-has-hung-up")
					dead := &recStream{site: simrt.HarnessSite("dead-out.Write"), fail: true}
					in := &thrift.TMemoryBuffer{Buffer: bytes.NewBuffer(append([]byte(nil), victim.frame[4:]...))}
					env.proc.Process(env.pf.GetProtocol(in), env.pf.GetProtocol(frugal.NewTFramedTransport(dead)))
					victim.kind = "malformed" // (not sent again below, not judged)
				}
			}
			for t := 0; t < nTasks; t++ {
				t := t
				s.Go("processor-caller", func() {
					for i, r := range reqs {
						if i%nTasks != t || r.kind == "malformed" {
							continue
						}
						r.sent = true
						in := &thrift.TMemoryBuffer{Buffer: bytes.NewBuffer(append([]byte(nil), r.frame[4:]...))}
						if err := env.proc.Process(env.pf.GetProtocol(in), oprot); err != nil {
							rc.Violate("C14", "process-returned-error", key, fmt.Sprintf("request %s (%s %s/%s): %v", r.opid, r.kind, r.method, r.outcome, err))
						}
					}
					simrt.Send(siteD, doneC, t)
				})
			}
			for t := 0; t < nTasks; t++ {
				simrt.Recv(siteD, doneC)
			}
			frames, rest := SplitFrames(sharedOut.buf)
			if len(rest) != 0 {
				rc.Violate("C14", "interleaved-replies", key, fmt.Sprintf("the shared output stream is not a sequence of whole frames: %d trailing bytes after %d frames", len(rest), len(frames)))
			}
			for _, f := range frames {
				onReply(f)
			}
		}
		finished = true
	})
	s.Run(func() bool { return finished && env.quiet() })

	if !finished {
		rc.Violate("C14", "server-workload-stuck", key, "the request sequence was not processed within the horizon")
	} else {
		for _, r := range reqs {
			if !r.sent {
				continue
			}
			where := fmt.Sprintf("request %s (%s %s outcome=%s, %s)", r.opid, r.kind, r.method, r.outcome, key)
			if r.kind == "oneway" && r.outcome == "ok" {
				if len(r.replies) != 0 {
					rc.Violate("C14", "oneway-answered", key, where)
				}
				continue
			}
			if r.kind == "oneway" || (r.kind == "unknown-method" && env.plans["oneway:"+r.tag] != nil) {
				// a failed oneway / a oneway for an unknown method: silence is fine, and so is one
				// well-formed exception; what is checked is everything around it
				if len(r.replies) == 0 {
					continue
				}
			}
			if r.kind == "malformed" && (setting == "http") {
				continue // reported as an HTTP error status or a PROTOCOL_ERROR reply; both are "rejected with an error"
			}
			if r.limit == "10" {
				if !r.got413 || len(r.replies) != 0 {
					rc.Violate("C14", "http-reply-over-requested-limit-not-413", key, fmt.Sprintf("%s: requested limit 10, got413=%v replies=%d", where, r.got413, len(r.replies)))
				}
				continue
			}
			if len(r.replies) != 1 {
				rc.Violate("C14", "reply-count", key+" "+r.kind, fmt.Sprintf("%s: %d replies", where, len(r.replies)))
				continue
			}
			f, _ := DecodeFrame(r.replies[0])
			rep := parseRawReply(env.proto, f.Payload)
			if rep.err != nil || rep.leftover != 0 {
				rc.Violate("C14", "malformed-reply", key, fmt.Sprintf("%s: parse error %v, %d bytes left over", where, rep.err, rep.leftover))
				continue
			}
			if rep.method != r.method {
				rc.Violate("C14", "reply-method-name", key, fmt.Sprintf("%s: reply names %q", where, rep.method))
			}
			if rep.mtype != r.wantType {
				rc.Violate("C14", "reply-message-type", key+" "+r.kind, fmt.Sprintf("%s: message type %d, expected %d (app type %d %q)", where, rep.mtype, r.wantType, rep.appType, rep.appMsg))
				continue
			}
			if rep.mtype == thrift.EXCEPTION && rep.appType != r.wantApp && !(r.wantAppAlt != 0 && rep.appType == r.wantAppAlt) {
				rc.Violate("C14", "reply-exception-type", key+" "+r.kind, fmt.Sprintf("%s: exception type %d, expected %d (%q)", where, rep.appType, r.wantApp, rep.appMsg))
			}
			if rep.mtype == thrift.REPLY && fmt.Sprint(rep.fieldIDs) != fmt.Sprint(r.wantFields) && !(len(rep.fieldIDs) == 0 && len(r.wantFields) == 0) {
				rc.Violate("C14", "reply-result-fields", key, fmt.Sprintf("%s: result struct has fields %v, expected %v", where, rep.fieldIDs, r.wantFields))
			}
			if p := env.plans[r.tag]; p != nil && r.kind == "valid" && p.handlerRuns != 1 {
				rc.Violate("C14", "handler-invocation-count", key, fmt.Sprintf("%s: handler ran %d times", where, p.handlerRuns))
			}
		}
	}
	s.Shutdown()
	env.kill()
}

func settle(d time.Duration) {
	site := simrt.HarnessSite("settle")
	simrt.Block(site)
	time.Sleep(d + 1777*time.Nanosecond)
	simrt.Yield(site)
}

// recStream records what is written to it; every Write is a scheduling point
// (what FBaseProcessor's write mutex exists for).
type recStream struct {
	buf  []byte
	site int
	fail bool // the peer is gone: every write fails
}

func (r *recStream) Open() error  { return nil }
func (r *recStream) IsOpen() bool { return true }
func (r *recStream) Close() error { return nil }
func (r *recStream) Read(p []byte) (int, error) {
	return 0, thrift.NewTTransportException(thrift.END_OF_FILE, "eof")
}
func (r *recStream) Flush(ctx context.Context) error { simrt.Pre(r.site); return nil }
func (r *recStream) RemainingBytes() uint64          { return 0 }
func (r *recStream) Write(p []byte) (int, error) {
	simrt.Pre(r.site)
	if r.fail {
		return 0, thrift.NewTTransportException(thrift.UNKNOWN_TRANSPORT_EXCEPTION, "write tcp 127.0.0.1:9090: connection reset by peer")
	}
	r.buf = append(r.buf, p...)
	return len(p), nil
}
