package main

import (
	"bytes"
	"fmt"
	"go/ast"
	"go/format"
	"go/token"
	"go/types"
	"os"
	"path/filepath"
	"sort"

	"golang.org/x/tools/go/ast/astutil"
	"golang.org/x/tools/go/packages"
)

// maporder mode (DESIGN.md §3 C19): in a scratch copy of the compiler, every
// `for ... range m` over a map iterates a key snapshot in an order chosen by
// the harness (simenv.Keys), re-checking presence so that deletions during
// iteration keep Go semantics (skipping concurrently inserted keys is allowed
// by the language).
func mapOrderMain(dir string, patterns []string, simenvPath string) {
	abs, _ := filepath.Abs(dir)
	cfg := &packages.Config{
		Mode: packages.NeedName | packages.NeedFiles | packages.NeedSyntax | packages.NeedTypes | packages.NeedTypesInfo | packages.NeedImports | packages.NeedDeps,
		Dir:  abs,
	}
	pkgs, err := packages.Load(cfg, patterns...)
	if err != nil {
		die("load: %v", err)
	}
	total, ptrKeys := 0, 0
	for _, p := range pkgs {
		if len(p.Errors) > 0 {
			for _, e := range p.Errors {
				fmt.Fprintln(os.Stderr, e)
			}
			die("package %s has errors", p.PkgPath)
		}
		files := append([]*ast.File(nil), p.Syntax...)
		sort.Slice(files, func(i, j int) bool {
			return p.Fset.Position(files[i].Pos()).Filename < p.Fset.Position(files[j].Pos()).Filename
		})
		for _, f := range files {
			name := p.Fset.Position(f.Pos()).Filename
			if filepath.Ext(name) != ".go" || len(name) > 8 && name[len(name)-8:] == "_test.go" {
				continue
			}
			n := 0
			astutil.Apply(f, nil, func(c *astutil.Cursor) bool {
				rs, ok := c.Node().(*ast.RangeStmt)
				if !ok {
					return true
				}
				mt, ok := p.TypesInfo.TypeOf(rs.X).Underlying().(*types.Map)
				if !ok {
					return true
				}
				if _, isPtr := mt.Key().Underlying().(*types.Pointer); isPtr {
					ptrKeys++
				}
				if rs.Tok == token.ASSIGN {
					die("%s: range over map with '=' is not supported", p.Fset.Position(rs.Pos()))
				}
				n++
				keyName := "_simK"
				if id, ok := rs.Key.(*ast.Ident); ok && id.Name != "_" {
					keyName = id.Name
				} else if rs.Key != nil {
					if _, ok := rs.Key.(*ast.Ident); !ok {
						die("%s: unsupported range key expression", p.Fset.Position(rs.Pos()))
					}
				}
				var pre []ast.Stmt
				mexpr := rs.X
				// evaluate the map expression once, like range does
				mv := fmt.Sprintf("_simM%d", n)
				hoist := &ast.AssignStmt{Lhs: []ast.Expr{ast.NewIdent(mv)}, Tok: token.DEFINE, Rhs: []ast.Expr{mexpr}}
				valName := "_"
				if id, ok := rs.Value.(*ast.Ident); ok {
					valName = id.Name
				} else if rs.Value != nil {
					die("%s: unsupported range value expression", p.Fset.Position(rs.Pos()))
				}
				pre = append(pre,
					&ast.AssignStmt{Lhs: []ast.Expr{ast.NewIdent(valName), ast.NewIdent("_simOK")}, Tok: token.DEFINE,
						Rhs: []ast.Expr{&ast.IndexExpr{X: ast.NewIdent(mv), Index: ast.NewIdent(keyName)}}},
					&ast.IfStmt{Cond: &ast.UnaryExpr{Op: token.NOT, X: ast.NewIdent("_simOK")},
						Body: &ast.BlockStmt{List: []ast.Stmt{&ast.BranchStmt{Tok: token.CONTINUE}}}},
				)
				rs.Key = ast.NewIdent("_")
				rs.Value = ast.NewIdent(keyName)
				rs.Tok = token.DEFINE
				rs.X = &ast.CallExpr{Fun: &ast.SelectorExpr{X: ast.NewIdent("simenv"), Sel: ast.NewIdent("Keys")}, Args: []ast.Expr{ast.NewIdent(mv)}}
				rs.Body.List = append(pre, rs.Body.List...)
				// wrap: { _simM := m; for ... }
				if _, labeled := c.Parent().(*ast.LabeledStmt); labeled {
					die("%s: labeled range over map is not supported", p.Fset.Position(rs.Pos()))
				}
				c.Replace(&ast.BlockStmt{List: []ast.Stmt{hoist, rs}})
				return true
			})
			if n == 0 {
				continue
			}
			total += n
			f.Comments = nil
			astutil.AddNamedImport(p.Fset, f, "simenv", simenvPath)
			var buf bytes.Buffer
			if err := format.Node(&buf, p.Fset, f); err != nil {
				die("format %s: %v", name, err)
			}
			if err := os.WriteFile(name, buf.Bytes(), 0o644); err != nil {
				die("write: %v", err)
			}
		}
	}
	fmt.Printf("simgen maporder: %d map range loops rewritten (%d with pointer keys)\n", total, ptrKeys)
}
