package main

import (
	"bytes"
	"fmt"
	"go/ast"
	"go/format"
	"go/parser"
	"go/token"
	"go/types"
	"os"
	"path/filepath"
	"sort"

	"golang.org/x/tools/go/ast/astutil"
	"golang.org/x/tools/go/packages"
)

// maporder mode (DESIGN.md §3 C19): in a scratch copy of the compiler, every
// `for ... range m` over a map iterates a key snapshot in an order chosen by
// the harness (simenv.Keys), re-checking presence so that deletions during
// iteration keep Go semantics (skipping concurrently inserted keys is allowed
// by the language).
func mapOrderMain(dir string, patterns []string, simenvPath string) {
	abs, _ := filepath.Abs(dir)
	cfg := &packages.Config{
		Mode: packages.NeedName | packages.NeedFiles | packages.NeedSyntax | packages.NeedTypes | packages.NeedTypesInfo | packages.NeedImports | packages.NeedDeps,
		Dir:  abs,
	}
	pkgs, err := packages.Load(cfg, patterns...)
	if err != nil {
		die("load: %v", err)
	}
	total, ptrKeys := 0, 0
	for _, p := range pkgs {
		if len(p.Errors) > 0 {
			for _, e := range p.Errors {
				fmt.Fprintln(os.Stderr, e)
			}
			die("package %s has errors", p.PkgPath)
		}
		files := append([]*ast.File(nil), p.Syntax...)
		sort.Slice(files, func(i, j int) bool {
			return p.Fset.Position(files[i].Pos()).Filename < p.Fset.Position(files[j].Pos()).Filename
		})
		for _, f := range files {
			name := p.Fset.Position(f.Pos()).Filename
			if filepath.Ext(name) != ".go" || len(name) > 8 && name[len(name)-8:] == "_test.go" {
				continue
			}
			n := 0
			astutil.Apply(f, nil, func(c *astutil.Cursor) bool {
				rs, ok := c.Node().(*ast.RangeStmt)
				if !ok {
					return true
				}
				mt, ok := p.TypesInfo.TypeOf(rs.X).Underlying().(*types.Map)
				if !ok {
					return true
				}
				if _, isPtr := mt.Key().Underlying().(*types.Pointer); isPtr {
					ptrKeys++
				}
				if rs.Tok == token.ASSIGN {
					die("%s: range over map with '=' is not supported", p.Fset.Position(rs.Pos()))
				}
				n++
				keyName := "_simK"
				if id, ok := rs.Key.(*ast.Ident); ok && id.Name != "_" {
					keyName = id.Name
				} else if rs.Key != nil {
					if _, ok := rs.Key.(*ast.Ident); !ok {
						die("%s: unsupported range key expression", p.Fset.Position(rs.Pos()))
					}
				}
				var pre []ast.Stmt
				mexpr := rs.X
				// evaluate the map expression once, like range does
				mv := fmt.Sprintf("_simM%d", n)
				hoist := &ast.AssignStmt{Lhs: []ast.Expr{ast.NewIdent(mv)}, Tok: token.DEFINE, Rhs: []ast.Expr{mexpr}}
				valName := "_"
				if id, ok := rs.Value.(*ast.Ident); ok {
					valName = id.Name
				} else if rs.Value != nil {
					die("%s: unsupported range value expression", p.Fset.Position(rs.Pos()))
				}
				pre = append(pre,
					&ast.AssignStmt{Lhs: []ast.Expr{ast.NewIdent(valName), ast.NewIdent("_simOK")}, Tok: token.DEFINE,
						Rhs: []ast.Expr{&ast.IndexExpr{X: ast.NewIdent(mv), Index: ast.NewIdent(keyName)}}},
					&ast.IfStmt{Cond: &ast.UnaryExpr{Op: token.NOT, X: ast.NewIdent("_simOK")},
						Body: &ast.BlockStmt{List: []ast.Stmt{&ast.BranchStmt{Tok: token.CONTINUE}}}},
				)
				rs.Key = ast.NewIdent("_")
				rs.Value = ast.NewIdent(keyName)
				rs.Tok = token.DEFINE
				var keysFn ast.Expr = &ast.SelectorExpr{X: ast.NewIdent("simenv"), Sel: ast.NewIdent("Keys")}
				if simenvPath == "" {
					// the package under rewrite defines simKeys itself (lib/go: overlay/zz_keys.go)
					keysFn = ast.NewIdent("simKeys")
				}
				rs.X = &ast.CallExpr{Fun: keysFn, Args: []ast.Expr{ast.NewIdent(mv)}}
				rs.Body.List = append(pre, rs.Body.List...)
				// wrap: { _simM := m; for ... }
				if _, labeled := c.Parent().(*ast.LabeledStmt); labeled {
					die("%s: labeled range over map is not supported", p.Fset.Position(rs.Pos()))
				}
				c.Replace(&ast.BlockStmt{List: []ast.Stmt{hoist, rs}})
				return true
			})
			if n == 0 {
				continue
			}
			total += n
			f.Comments = nil
			if simenvPath != "" {
				astutil.AddNamedImport(p.Fset, f, "simenv", simenvPath)
			}
			var buf bytes.Buffer
			if err := format.Node(&buf, p.Fset, f); err != nil {
				die("format %s: %v", name, err)
			}
			if err := os.WriteFile(name, buf.Bytes(), 0o644); err != nil {
				die("write: %v", err)
			}
		}
	}
	fmt.Printf("simgen maporder: %d map range loops rewritten (%d with pointer keys)\n", total, ptrKeys)
}

// mapOrderUntyped does the same for generated code, where no type information is needed to tell a map from a
// slice: frugal's Go generator walks lists with `for _, v := range` and maps and sets with a named key
// (`for k, v := range`, `for v, _ := range`). Should that ever change, a slice handed to Keys does not compile.
func mapOrderUntyped(dir string, simenvPath string) {
	total := 0
	fset := token.NewFileSet()
	var names []string
	filepath.Walk(dir, func(path string, info os.FileInfo, err error) error {
		if err == nil && !info.IsDir() && filepath.Ext(path) == ".go" {
			names = append(names, path)
		}
		return nil
	})
	sort.Strings(names)
	for _, name := range names {
		f, err := parser.ParseFile(fset, name, nil, 0)
		if err != nil {
			die("parse %s: %v", name, err)
		}
		n := 0
		astutil.Apply(f, nil, func(c *astutil.Cursor) bool {
			rs, ok := c.Node().(*ast.RangeStmt)
			if !ok || rs.Tok != token.DEFINE {
				return true
			}
			key, ok := rs.Key.(*ast.Ident)
			if !ok || key.Name == "_" {
				return true
			}
			if _, labeled := c.Parent().(*ast.LabeledStmt); labeled {
				die("%s: labeled range is not supported", fset.Position(rs.Pos()))
			}
			n++
			mv := fmt.Sprintf("_simM%d", n)
			hoist := &ast.AssignStmt{Lhs: []ast.Expr{ast.NewIdent(mv)}, Tok: token.DEFINE, Rhs: []ast.Expr{rs.X}}
			valName := "_"
			if id, ok := rs.Value.(*ast.Ident); ok {
				valName = id.Name
			} else if rs.Value != nil {
				die("%s: unsupported range value expression", fset.Position(rs.Pos()))
			}
			pre := []ast.Stmt{
				&ast.AssignStmt{Lhs: []ast.Expr{ast.NewIdent(valName), ast.NewIdent("_simOK")}, Tok: token.DEFINE,
					Rhs: []ast.Expr{&ast.IndexExpr{X: ast.NewIdent(mv), Index: ast.NewIdent(key.Name)}}},
				&ast.IfStmt{Cond: &ast.UnaryExpr{Op: token.NOT, X: ast.NewIdent("_simOK")},
					Body: &ast.BlockStmt{List: []ast.Stmt{&ast.BranchStmt{Tok: token.CONTINUE}}}},
			}
			rs.Key = ast.NewIdent("_")
			rs.Value = ast.NewIdent(key.Name)
			rs.X = &ast.CallExpr{Fun: &ast.SelectorExpr{X: ast.NewIdent("simenv"), Sel: ast.NewIdent("Keys")}, Args: []ast.Expr{ast.NewIdent(mv)}}
			rs.Body.List = append(pre, rs.Body.List...)
			c.Replace(&ast.BlockStmt{List: []ast.Stmt{hoist, rs}})
			return true
		})
		if n == 0 {
			continue
		}
		total += n
		f.Comments = nil
		astutil.AddNamedImport(fset, f, "simenv", simenvPath)
		var buf bytes.Buffer
		if err := format.Node(&buf, fset, f); err != nil {
			die("format %s: %v", name, err)
		}
		if err := os.WriteFile(name, buf.Bytes(), 0o644); err != nil {
			die("write: %v", err)
		}
	}
	fmt.Printf("simgen maporder (generated code): %d range loops over maps and sets rewritten\n", total)
}
