// simgen rewrites a scratch copy of a Go package so that every synchronisation
// operation becomes a scheduling point of /verif/simrt (see DESIGN.md §2.2).
// It never touches /repo: the driver copies the sources first.
//
//	simgen -dir <scratch pkg dir> [-skip frugal.go] [-mem context.go,protocol.go]
//
// Anything it cannot translate faithfully aborts with exit status 2.
package main

import (
	"bytes"
	"flag"
	"fmt"
	"go/ast"
	"go/format"
	"go/token"
	"go/types"
	"os"
	"path/filepath"
	"sort"
	"strings"

	"golang.org/x/tools/go/ast/astutil"
	"golang.org/x/tools/go/packages"
)

func die(f string, a ...any) {
	fmt.Fprintf(os.Stderr, "simgen: "+f+"\n", a...)
	os.Exit(2)
}

type rewriter struct {
	fset      *token.FileSet
	info      *types.Info
	pkg       *types.Package
	sites     []string
	file      string
	used      bool
	comms     map[*ast.CommClause]ast.Stmt
	isDef     map[*ast.CommClause]bool
	recvs     map[*ast.CallExpr]bool
	poolFiles map[string]bool // files in which sync.Pool was replaced
	mem       bool
	labels    map[ast.Stmt]bool // statements that carry a label
	stats     map[string]int
	curFunc   string
	ord       map[string]int
}

func (r *rewriter) site(n ast.Node, kind string) ast.Expr {
	p := r.fset.Position(n.Pos())
	// "file.go:LINE func/kind#ordinal": everything after the line number is
	// stable under unrelated edits and is what witness keys are built from
	ck := r.file + "|" + r.curFunc + "|" + kind
	r.ord[ck]++
	r.sites = append(r.sites, fmt.Sprintf("%s:%d %s/%s#%d", filepath.Base(p.Filename), p.Line, r.curFunc, kind, r.ord[ck]))
	r.used = true
	r.stats[kind]++
	return &ast.BasicLit{Kind: token.INT, Value: fmt.Sprint(len(r.sites))}
}

func rt(name string) ast.Expr {
	return &ast.SelectorExpr{X: ast.NewIdent("simrt"), Sel: ast.NewIdent(name)}
}

func call(fn ast.Expr, args ...ast.Expr) *ast.CallExpr {
	return &ast.CallExpr{Fun: fn, Args: args}
}

func (r *rewriter) pos(n ast.Node) string { return r.fset.Position(n.Pos()).String() }

// mutexMethod reports whether call is X.Lock/Unlock/RLock/RUnlock on a
// sync.Mutex / sync.RWMutex and returns the simrt replacement name and the
// pointer-to-mutex expression.
func (r *rewriter) mutexMethod(c *ast.CallExpr) (string, ast.Expr, bool) {
	sel, ok := c.Fun.(*ast.SelectorExpr)
	if !ok {
		return "", nil, false
	}
	s := r.info.Selections[sel]
	if s == nil || s.Kind() != types.MethodVal {
		return "", nil, false
	}
	fn, ok := s.Obj().(*types.Func)
	if !ok || fn.Pkg() == nil || fn.Pkg().Path() != "sync" {
		return "", nil, false
	}
	recv := fn.Type().(*types.Signature).Recv().Type().String()
	if recv != "*sync.Mutex" && recv != "*sync.RWMutex" {
		return "", nil, false
	}
	name := fn.Name()
	switch name {
	case "Lock", "Unlock", "RLock", "RUnlock":
	default:
		die("%s: unsupported %s.%s", r.pos(c), recv, name)
	}
	// x.Lock() where the mutex is embedded (possibly several levels deep): spell out the path to the mutex
	recvExpr := sel.X
	recvType := r.info.TypeOf(sel.X)
	for _, idx := range s.Index()[:len(s.Index())-1] {
		t := recvType
		if p, ok := t.Underlying().(*types.Pointer); ok {
			t = p.Elem()
		}
		st, ok := t.Underlying().(*types.Struct)
		if !ok {
			die("%s: cannot follow the embedding path to the mutex", r.pos(c))
		}
		f := st.Field(idx)
		recvExpr = &ast.SelectorExpr{X: recvExpr, Sel: ast.NewIdent(f.Name())}
		recvType = f.Type()
	}
	var ptr ast.Expr
	if _, isPtr := recvType.Underlying().(*types.Pointer); isPtr {
		ptr = recvExpr
	} else {
		ptr = &ast.UnaryExpr{Op: token.AND, X: recvExpr}
	}
	return name, ptr, true
}

func (r *rewriter) funcOf(c *ast.CallExpr) *types.Func {
	switch f := c.Fun.(type) {
	case *ast.SelectorExpr:
		if s := r.info.Selections[f]; s != nil {
			fn, _ := s.Obj().(*types.Func)
			return fn
		}
		fn, _ := r.info.Uses[f.Sel].(*types.Func)
		return fn
	case *ast.Ident:
		fn, _ := r.info.Uses[f].(*types.Func)
		return fn
	}
	return nil
}

var libBlocking = map[string]bool{
	"(*github.com/nats-io/nats.go.Conn).Flush":               true,
	"(*github.com/nats-io/nats.go.Conn).FlushTimeout":        true,
	"(*github.com/nats-io/nats.go.Conn).Subscribe":           true,
	"(*github.com/nats-io/nats.go.Conn).QueueSubscribe":      true,
	"(*github.com/nats-io/nats.go.Conn).Publish":             true,
	"(*github.com/nats-io/nats.go.Conn).PublishRequest":      true,
	"(*github.com/nats-io/nats.go.Conn).Barrier":             true,
	"(*github.com/nats-io/nats.go.Subscription).Drain":       true,
	"(*github.com/nats-io/nats.go.Subscription).Unsubscribe": true,
	"(*github.com/go-stomp/stomp.Conn).Send":                 true,
	"(*github.com/go-stomp/stomp.Conn).Subscribe":            true,
	"(*github.com/go-stomp/stomp.Conn).Ack":                  true,
	"(*github.com/go-stomp/stomp.Subscription).Unsubscribe":  true,
	"(*net/http.Client).Do":                                  true,
}

// library methods that are known not to block (anything else on these types aborts)
var libPure = map[string]bool{
	"(*github.com/nats-io/nats.go.Conn).Status":            true,
	"(*github.com/nats-io/nats.go.Conn).IsClosed":          true,
	"(*github.com/nats-io/nats.go.Conn).IsConnected":       true,
	"(*github.com/nats-io/nats.go.Conn).IsReconnecting":    true,
	"(*github.com/nats-io/nats.go.Conn).IsDraining":        true,
	"(*github.com/nats-io/nats.go.Conn).MaxPayload":        true,
	"(*github.com/nats-io/nats.go.Conn).Stats":             true,
	"(*github.com/nats-io/nats.go.Conn).LastError":         true,
	"(*github.com/nats-io/nats.go.Conn).NewRespInbox":      true,
	"(*github.com/nats-io/nats.go.Subscription).IsValid":   true,
	"(*github.com/nats-io/nats.go.Subscription).Pending":   true,
	"(*github.com/nats-io/nats.go.Subscription).Dropped":   true,
	"(*github.com/nats-io/nats.go.Subscription).Delivered": true,
}

func (r *rewriter) pre(c *astutil.Cursor) bool {
	switch n := c.Node().(type) {
	case *ast.FuncDecl:
		r.curFunc = n.Name.Name
	case *ast.LabeledStmt:
		r.labels[n.Stmt] = true
	case *ast.SelectStmt:
		if r.labels[n] {
			die("%s: labeled select is not supported", r.pos(n))
		}
		for _, cl := range n.Body.List {
			cc := cl.(*ast.CommClause)
			if cc.Comm == nil {
				r.isDef[cc] = true
			} else {
				r.comms[cc] = cc.Comm
				cc.Comm = nil
			}
		}
	case *ast.RangeStmt:
		if _, ok := r.info.TypeOf(n.X).Underlying().(*types.Chan); ok && r.labels[n] {
			die("%s: labeled range over channel is not supported", r.pos(n))
		}
	}
	return true
}

func (r *rewriter) post(c *astutil.Cursor) bool {
	switch n := c.Node().(type) {
	case *ast.CallExpr:
		r.postCall(c, n)
	case *ast.UnaryExpr:
		if n.Op == token.ARROW {
			nc := call(rt("Recv"), r.site(n, "recv"), n.X)
			r.recvs[nc] = true
			c.Replace(nc)
		}
	case *ast.AssignStmt:
		if len(n.Lhs) == 2 && len(n.Rhs) == 1 {
			if ce, ok := n.Rhs[0].(*ast.CallExpr); ok && r.recvs[ce] {
				ce.Fun = rt("Recv2")
			}
		}
	case *ast.ValueSpec:
		if len(n.Names) == 2 && len(n.Values) == 1 {
			if ce, ok := n.Values[0].(*ast.CallExpr); ok && r.recvs[ce] {
				ce.Fun = rt("Recv2")
			}
		}
	case *ast.SelectorExpr:
		// sync.Pool -> simrt.Pool: the runtime's pool hands items out per P and forgets them at GC, so what a
		// Get returns depends on which thread asked; the simulated pool is a LIFO list, emptied between runs
		if id, ok := n.X.(*ast.Ident); ok && id.Name == "sync" && n.Sel.Name == "Pool" {
			if pn, ok := r.info.Uses[id].(*types.PkgName); ok && pn.Imported().Path() == "sync" {
				c.Replace(rt("Pool"))
				r.used = true
				r.stats["pool"]++
				r.poolFiles[r.file] = true
			}
		}
	case *ast.SendStmt:
		// SendTo(site, ch)(v): the element type comes from the channel alone, and v is converted to it as in `ch <- v`
		// (a concrete error value sent on a `chan error` would not unify in a single generic call)
		c.Replace(&ast.ExprStmt{X: call(call(rt("SendTo"), r.site(n, "send"), n.Chan), n.Value)})
	case *ast.SelectStmt:
		c.Replace(r.rewriteSelect(n))
	case *ast.GoStmt:
		c.Replace(r.rewriteGo(n))
	case *ast.RangeStmt:
		if _, ok := r.info.TypeOf(n.X).Underlying().(*types.Chan); ok {
			c.Replace(r.rewriteRangeChan(n))
		}
	case *ast.ExprStmt:
		// wg.Wait() / time.Sleep(): native, followed by a mandatory yield
		if ce, ok := n.X.(*ast.CallExpr); ok {
			if fn := r.funcOf(ce); fn != nil {
				switch fn.FullName() {
				case "(*sync.WaitGroup).Wait", "time.Sleep":
					if c.Index() < 0 {
						die("%s: %s outside a statement list", r.pos(n), fn.FullName())
					}
					c.InsertAfter(&ast.ExprStmt{X: call(rt("Yield"), r.site(n, "after-"+fn.Name()))})
				}
			}
		}
	}
	return true
}

func (r *rewriter) postCall(c *astutil.Cursor, n *ast.CallExpr) {
	if name, ptr, ok := r.mutexMethod(n); ok {
		c.Replace(call(rt(name), r.site(n, strings.ToLower(name)), ptr))
		return
	}
	if id, ok := n.Fun.(*ast.Ident); ok && id.Name == "close" {
		if _, isB := r.info.Uses[id].(*types.Builtin); isB {
			c.Replace(call(rt("Close"), r.site(n, "close"), n.Args[0]))
			return
		}
	}
	fn := r.funcOf(n)
	if fn == nil || fn.Pkg() == nil {
		return
	}
	full := fn.FullName()
	if fn.Pkg().Path() == "sync/atomic" {
		if len(n.Args) > 0 {
			if u, ok := n.Args[0].(*ast.UnaryExpr); ok && u.Op == token.AND {
				write := !strings.HasPrefix(fn.Name(), "Load")
				n.Args[0] = call(rt("AtomicPre"), r.site(n, "atomic"), n.Args[0], ast.NewIdent(fmt.Sprint(write)))
			}
		}
		return
	}
	sig := fn.Type().(*types.Signature)
	if sig.Recv() != nil {
		rs := sig.Recv().Type().String()
		switch rs {
		case "*github.com/nats-io/nats.go.Conn", "*github.com/nats-io/nats.go.Subscription",
			"*github.com/go-stomp/stomp.Conn", "*github.com/go-stomp/stomp.Subscription", "*net/http.Client":
			if libPure[full] {
				return
			}
			if !libBlocking[full] {
				// a library method this table has not seen (a changed tree may call anything): with results it is
				// treated like a blocking call (a mandatory yield after it - conservative, it only adds a
				// scheduling point); a call without results cannot be wrapped as an expression and is left alone
				fmt.Fprintf(os.Stderr, "simgen: %s: %s is not classified; treated as %s\n", r.pos(n), full,
					map[bool]string{true: "blocking", false: "non-blocking (no result to wrap)"}[sig.Results().Len() >= 1 && sig.Results().Len() <= 2])
				if sig.Results().Len() < 1 || sig.Results().Len() > 2 {
					return
				}
			}
			switch c.Parent().(type) {
			case *ast.DeferStmt, *ast.GoStmt:
				die("%s: defer/go of library call %s is not supported", r.pos(n), full)
			}
			// guard callbacks
			for i, a := range n.Args {
				if fn.Pkg().Path() != "github.com/nats-io/nats.go" {
					break
				}
				if at, ok := r.info.TypeOf(a).(*types.Signature); ok || isFuncNamed(r.info.TypeOf(a)) {
					var ps int
					if ok {
						ps = at.Params().Len()
					} else {
						ps = r.info.TypeOf(a).Underlying().(*types.Signature).Params().Len()
					}
					switch ps {
					case 0:
						n.Args[i] = call(rt("Guard0"), a)
					case 1:
						n.Args[i] = call(rt("Guard1"), a)
					default:
						die("%s: callback with %d params", r.pos(n), ps)
					}
					r.used = true
				}
			}
			switch sig.Results().Len() {
			case 1:
				// copy the node: the cursor replaces n with a wrapper containing the copy
				cp := *n
				if sel, ok := n.Fun.(*ast.SelectorExpr); ok && strings.HasPrefix(rs, "*github.com/go-stomp/stomp.") {
					// go-stomp blocks inside these calls while holding Conn.closeMutex
					c.Replace(call(rt("After1L"), call(rt("LibEnter"), r.site(n, "lib:"+fn.Name()), sel.X), &cp))
				} else {
					c.Replace(call(rt("After1"), r.site(n, "lib:"+fn.Name()), &cp))
				}
			case 2:
				cp := *n
				r.site(n, "lib:"+fn.Name())
				c.Replace(call(rt("After2"), &cp))
			default:
				die("%s: %s has %d results", r.pos(n), full, sig.Results().Len())
			}
		}
	}
}

func isFuncNamed(t types.Type) bool {
	if t == nil {
		return false
	}
	_, ok := t.Underlying().(*types.Signature)
	return ok
}

func define(name string, x ast.Expr) ast.Stmt {
	return &ast.AssignStmt{Lhs: []ast.Expr{ast.NewIdent(name)}, Tok: token.DEFINE, Rhs: []ast.Expr{x}}
}

func (r *rewriter) rewriteSelect(n *ast.SelectStmt) ast.Stmt {
	var pre []ast.Stmt
	var cases []ast.Expr
	var clauses []ast.Stmt
	hasDefault := false
	libFed := false
	noteChan := func(x ast.Expr) {
		if t := r.info.TypeOf(x); t != nil && strings.Contains(t.String(), "github.com/go-stomp/") {
			libFed = true
		}
	}
	idx := 0
	siteExpr := r.site(n, "select")
	for _, cl := range n.Body.List {
		cc := cl.(*ast.CommClause)
		if r.isDef[cc] {
			hasDefault = true
			clauses = append(clauses, &ast.CaseClause{
				List: []ast.Expr{&ast.UnaryExpr{Op: token.SUB, X: &ast.BasicLit{Kind: token.INT, Value: "1"}}},
				Body: cc.Body,
			})
			continue
		}
		comm := r.comms[cc]
		cname := fmt.Sprintf("_simC%d", idx)
		var body []ast.Stmt
		switch s := comm.(type) {
		case *ast.SendStmt:
			pre = append(pre, define(cname, s.Chan))
			cases = append(cases, call(rt("SendCase"), ast.NewIdent(cname), s.Value))
		case *ast.ExprStmt:
			u, ok := s.X.(*ast.UnaryExpr)
			if !ok || u.Op != token.ARROW {
				die("%s: unsupported select clause", r.pos(s))
			}
			noteChan(u.X)
			pre = append(pre, define(cname, u.X))
			cases = append(cases, call(rt("RecvCase"), ast.NewIdent(cname)))
		case *ast.AssignStmt:
			u, ok := s.Rhs[0].(*ast.UnaryExpr)
			if !ok || u.Op != token.ARROW || len(s.Rhs) != 1 {
				die("%s: unsupported select clause", r.pos(s))
			}
			noteChan(u.X)
			pre = append(pre, define(cname, u.X))
			cases = append(cases, call(rt("RecvCase"), ast.NewIdent(cname)))
			rhs := []ast.Expr{call(rt("CastFrom"), ast.NewIdent(cname), ast.NewIdent("_simR"))}
			if len(s.Lhs) == 2 {
				rhs = append(rhs, ast.NewIdent("_simOK"))
			}
			body = append(body, &ast.AssignStmt{Lhs: s.Lhs, Tok: s.Tok, Rhs: rhs})
		default:
			die("%s: unsupported select clause %T", r.pos(cc), comm)
		}
		body = append(body, cc.Body...)
		clauses = append(clauses, &ast.CaseClause{
			List: []ast.Expr{&ast.BasicLit{Kind: token.INT, Value: fmt.Sprint(idx)}},
			Body: body,
		})
		idx++
	}
	// a switch is a terminating statement only with a default clause
	clauses = append(clauses, &ast.CaseClause{Body: []ast.Stmt{
		&ast.ExprStmt{X: call(ast.NewIdent("panic"), &ast.BasicLit{Kind: token.STRING, Value: `"simrt: bad select index"`})}}})
	args := append([]ast.Expr{siteExpr, ast.NewIdent(fmt.Sprint(hasDefault))}, cases...)
	stmts := append(pre,
		&ast.AssignStmt{
			Lhs: []ast.Expr{ast.NewIdent("_simI"), ast.NewIdent("_simR"), ast.NewIdent("_simOK")},
			Tok: token.DEFINE,
			Rhs: []ast.Expr{call(rt(map[bool]string{false: "Select", true: "SelectLib"}[libFed]), args...)},
		},
		&ast.AssignStmt{
			Lhs: []ast.Expr{ast.NewIdent("_"), ast.NewIdent("_")},
			Tok: token.ASSIGN,
			Rhs: []ast.Expr{ast.NewIdent("_simR"), ast.NewIdent("_simOK")},
		},
		&ast.SwitchStmt{Tag: ast.NewIdent("_simI"), Body: &ast.BlockStmt{List: clauses}},
	)
	return &ast.BlockStmt{List: stmts}
}

func (r *rewriter) rewriteGo(n *ast.GoStmt) ast.Stmt {
	var pre []ast.Stmt
	c := n.Call
	newCall := &ast.CallExpr{Ellipsis: c.Ellipsis}
	if fl, ok := c.Fun.(*ast.FuncLit); ok {
		newCall.Fun = fl
	} else {
		pre = append(pre, define("_simF", c.Fun))
		newCall.Fun = ast.NewIdent("_simF")
	}
	for i, a := range c.Args {
		if tv, ok := r.info.Types[a]; ok && (tv.Value != nil || tv.IsNil()) {
			newCall.Args = append(newCall.Args, a)
			continue
		}
		name := fmt.Sprintf("_simA%d", i)
		pre = append(pre, define(name, a))
		newCall.Args = append(newCall.Args, ast.NewIdent(name))
	}
	pre = append(pre, define("_simH", call(rt("Spawn"), r.site(n, "go"))))
	body := &ast.BlockStmt{List: []ast.Stmt{
		&ast.ExprStmt{X: call(rt("Born"), ast.NewIdent("_simH"))},
		&ast.DeferStmt{Call: call(rt("Exit"))},
		&ast.ExprStmt{X: newCall},
	}}
	pre = append(pre, &ast.GoStmt{Call: &ast.CallExpr{Fun: &ast.FuncLit{Type: &ast.FuncType{Params: &ast.FieldList{}}, Body: body}}})
	return &ast.BlockStmt{List: pre}
}

func (r *rewriter) rewriteRangeChan(n *ast.RangeStmt) ast.Stmt {
	key := n.Key
	if key == nil {
		key = ast.NewIdent("_")
	}
	if n.Value != nil {
		die("%s: range over channel with two variables", r.pos(n))
	}
	recv := call(rt("Recv2"), r.site(n, "range-recv"), ast.NewIdent("_simC"))
	var first ast.Stmt
	var decl []ast.Stmt
	if n.Tok == token.ASSIGN {
		decl = append(decl, &ast.DeclStmt{Decl: &ast.GenDecl{Tok: token.VAR, Specs: []ast.Spec{
			&ast.ValueSpec{Names: []*ast.Ident{ast.NewIdent("_simOK")}, Type: ast.NewIdent("bool")}}}})
		first = &ast.AssignStmt{Lhs: []ast.Expr{key, ast.NewIdent("_simOK")}, Tok: token.ASSIGN, Rhs: []ast.Expr{recv}}
	} else {
		first = &ast.AssignStmt{Lhs: []ast.Expr{key, ast.NewIdent("_simOK")}, Tok: token.DEFINE, Rhs: []ast.Expr{recv}}
	}
	body := append([]ast.Stmt{first,
		&ast.IfStmt{Cond: &ast.UnaryExpr{Op: token.NOT, X: ast.NewIdent("_simOK")},
			Body: &ast.BlockStmt{List: []ast.Stmt{&ast.BranchStmt{Tok: token.BREAK}}}},
	}, n.Body.List...)
	stmts := append([]ast.Stmt{define("_simC", n.X)}, decl...)
	stmts = append(stmts, &ast.ForStmt{Body: &ast.BlockStmt{List: body}})
	return &ast.BlockStmt{List: stmts}
}

// ---- memory-access instrumentation (lockset oracle, C17) ------------------------

// memTargets collects, for the statement's own expressions (not nested
// blocks), accesses to struct fields of map type declared in this package and
// to package-level variables of basic type.
func (r *rewriter) memAccesses(stmt ast.Stmt) []ast.Stmt {
	var out []ast.Stmt
	seen := map[string]bool{}
	add := func(e ast.Expr, write bool) {
		var b bytes.Buffer
		format.Node(&b, r.fset, e)
		k := fmt.Sprintf("%s/%v", b.String(), write)
		if seen[k] {
			return
		}
		seen[k] = true
		// maps are identified by the map object itself (so that two structs
		// sharing one map are seen as one location); other variables by address
		var loc ast.Expr = &ast.UnaryExpr{Op: token.AND, X: e}
		if t := r.info.TypeOf(e); t != nil {
			if _, isMap := t.Underlying().(*types.Map); isMap {
				loc = e
			}
		}
		out = append(out, &ast.ExprStmt{X: call(rt("Mem"), r.site(e, "mem:"+b.String()), loc, ast.NewIdent(fmt.Sprint(write)))})
	}
	isTarget := func(e ast.Expr) bool {
		switch x := e.(type) {
		case *ast.SelectorExpr:
			s := r.info.Selections[x]
			if s == nil || s.Kind() != types.FieldVal {
				return false
			}
			v, ok := s.Obj().(*types.Var)
			if !ok || v.Pkg() != r.pkg {
				return false
			}
			_, isMap := v.Type().Underlying().(*types.Map)
			return isMap
		case *ast.Ident:
			v, ok := r.info.Uses[x].(*types.Var)
			if ok && v.Pkg() == r.pkg && !v.IsField() {
				// any variable of map type (local, parameter or package-level):
				// it may alias a map that other tasks reach through a struct
				if _, isMap := v.Type().Underlying().(*types.Map); isMap {
					return true
				}
			}
			if !ok || v.Pkg() != r.pkg || v.Parent() != r.pkg.Scope() {
				return false
			}
			switch v.Type().Underlying().(type) {
			case *types.Basic, *types.Array, *types.Slice, *types.Map, *types.Struct:
				return true
			}
		}
		return false
	}
	writes := map[ast.Expr]bool{}
	markWrite := func(lhs ast.Expr) {
		switch x := lhs.(type) {
		case *ast.IndexExpr:
			writes[x.X] = true
		default:
			writes[lhs] = true
		}
	}
	var walk func(n ast.Node) bool
	walk = func(n ast.Node) bool {
		switch x := n.(type) {
		case *ast.BlockStmt, *ast.FuncLit:
			return false
		case *ast.AssignStmt:
			for _, l := range x.Lhs {
				markWrite(l)
			}
		case *ast.IncDecStmt:
			markWrite(x.X)
		case *ast.CallExpr:
			if id, ok := x.Fun.(*ast.Ident); ok && id.Name == "delete" && len(x.Args) > 0 {
				writes[x.Args[0]] = true
			}
			if fn := r.funcOf(x); fn != nil && fn.Pkg() != nil && fn.Pkg().Path() == "sync/atomic" {
				return false // atomic accesses are reported by AtomicPre
			}
		case *ast.UnaryExpr:
			if x.Op == token.AND {
				// the address of a shared variable escapes: whoever gets it can
				// write through it, so it counts as a write access
				if isTarget(x.X) {
					add(x.X, true)
				}
				return false
			}
		case *ast.SliceExpr:
			// slicing a shared array or slice hands out a mutable alias
			if isTarget(x.X) {
				add(x.X, true)
				return false
			}
		case ast.Expr:
			if isTarget(x) {
				add(x, writes[x])
				return false
			}
		}
		return true
	}
	switch s := stmt.(type) {
	case *ast.IfStmt:
		if s.Init != nil {
			ast.Inspect(s.Init, walk)
		}
		ast.Inspect(s.Cond, walk)
	case *ast.ForStmt:
		if s.Init != nil {
			ast.Inspect(s.Init, walk)
		}
	case *ast.RangeStmt:
		ast.Inspect(s.X, walk)
	case *ast.SwitchStmt:
		if s.Tag != nil {
			ast.Inspect(s.Tag, walk)
		}
	case *ast.BlockStmt, *ast.LabeledStmt, *ast.SelectStmt, *ast.TypeSwitchStmt, *ast.DeferStmt, *ast.GoStmt:
	default:
		ast.Inspect(stmt, walk)
	}
	return out
}

func (r *rewriter) memPass(f *ast.File) {
	astutil.Apply(f, func(c *astutil.Cursor) bool {
		if fd, ok := c.Node().(*ast.FuncDecl); ok {
			r.curFunc = fd.Name.Name
		}
		st, ok := c.Node().(ast.Stmt)
		if !ok || c.Index() < 0 {
			return true
		}
		for _, m := range r.memAccesses(st) {
			c.InsertBefore(m)
			r.used = true
		}
		return true
	}, nil)
}

func main() {
	dir := flag.String("dir", "", "package directory to rewrite in place (a scratch copy)")
	skip := flag.String("skip", "frugal.go", "comma-separated file names to leave untouched")
	mem := flag.String("mem", "", "comma-separated file names that get memory-access instrumentation")
	sitesOut := flag.String("sites", "", "write the site table (one per line) to this file")
	mode := flag.String("mode", "sched", "sched: scheduling points in one package; maporder: controlled map iteration in a module")
	simenvPath := flag.String("simenv", "", "maporder: import path of the simenv package")
	flag.Parse()
	if *mode == "maporder-gen" {
		mapOrderUntyped(*dir, *simenvPath)
		return
	}
	if *mode == "maporder" {
		mapOrderMain(*dir, flag.Args(), *simenvPath)
		return
	}
	if *dir == "" {
		die("need -dir")
	}
	abs, _ := filepath.Abs(*dir)
	cfg := &packages.Config{
		Mode: packages.NeedName | packages.NeedFiles | packages.NeedSyntax | packages.NeedTypes |
			packages.NeedTypesInfo | packages.NeedImports | packages.NeedDeps,
		Dir:   abs,
		Tests: false,
	}
	pkgs, err := packages.Load(cfg, ".")
	if err != nil {
		die("load: %v", err)
	}
	if len(pkgs) != 1 {
		die("expected one package, got %d", len(pkgs))
	}
	p := pkgs[0]
	if len(p.Errors) > 0 {
		for _, e := range p.Errors {
			fmt.Fprintln(os.Stderr, e)
		}
		die("package has errors")
	}
	skipSet := map[string]bool{}
	for _, s := range strings.Split(*skip, ",") {
		skipSet[s] = true
	}
	memSet := map[string]bool{}
	for _, s := range strings.Split(*mem, ",") {
		if s != "" {
			memSet[s] = true
		}
	}
	r := &rewriter{fset: p.Fset, info: p.TypesInfo, pkg: p.Types, comms: map[*ast.CommClause]ast.Stmt{},
		isDef: map[*ast.CommClause]bool{}, recvs: map[*ast.CallExpr]bool{}, poolFiles: map[string]bool{}, labels: map[ast.Stmt]bool{}, stats: map[string]int{}, ord: map[string]int{}}
	// stable order
	files := append([]*ast.File(nil), p.Syntax...)
	sort.Slice(files, func(i, j int) bool {
		return p.Fset.Position(files[i].Pos()).Filename < p.Fset.Position(files[j].Pos()).Filename
	})
	for _, f := range files {
		name := p.Fset.Position(f.Pos()).Filename
		base := filepath.Base(name)
		if skipSet[base] || strings.HasPrefix(base, "zz_sim") {
			continue
		}
		r.file = base
		r.used = false
		if memSet[base] {
			r.memPass(f)
		}
		astutil.Apply(f, r.pre, r.post)
		if !r.used {
			continue
		}
		f.Comments = nil
		astutil.AddNamedImport(p.Fset, f, "simrt", "verif/simrt")
		if r.poolFiles[base] {
			// "sync" may have been imported for the pool only
			stillUsed := false
			ast.Inspect(f, func(x ast.Node) bool {
				if se, ok := x.(*ast.SelectorExpr); ok {
					if id, ok := se.X.(*ast.Ident); ok && id.Name == "sync" {
						stillUsed = true
					}
				}
				return !stillUsed
			})
			if !stillUsed {
				astutil.DeleteImport(p.Fset, f, "sync")
			}
		}
		var buf bytes.Buffer
		if err := format.Node(&buf, p.Fset, f); err != nil {
			die("format %s: %v", name, err)
		}
		if err := os.WriteFile(name, buf.Bytes(), 0o644); err != nil {
			die("write: %v", err)
		}
	}
	// site table
	var b bytes.Buffer
	fmt.Fprintf(&b, "package %s\n\nimport simrt \"verif/simrt\"\n\nfunc init() {\n\tsimrt.RegisterSites([]string{\n", p.Name)
	for _, s := range r.sites {
		fmt.Fprintf(&b, "\t\t%q,\n", s)
	}
	fmt.Fprintf(&b, "\t})\n}\n")
	if err := os.WriteFile(filepath.Join(abs, "zz_simsites.go"), b.Bytes(), 0o644); err != nil {
		die("write sites: %v", err)
	}
	if *sitesOut != "" {
		os.WriteFile(*sitesOut, []byte(strings.Join(r.sites, "\n")+"\n"), 0o644)
	}
	keys := make([]string, 0, len(r.stats))
	for k := range r.stats {
		if !strings.HasPrefix(k, "mem:") {
			keys = append(keys, k)
		}
	}
	sort.Strings(keys)
	fmt.Printf("simgen: %d sites", len(r.sites))
	for _, k := range keys {
		fmt.Printf(" %s=%d", k, r.stats[k])
	}
	fmt.Println()
}
